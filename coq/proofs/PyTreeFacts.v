(* PyTreeFacts.v -- facts about the PyTree check model (C08, C04, C12). *)
From JT Require Import model.PyTreeCheck proofs.TreeFacts proofs.CheckFacts.
From Coq Require Import Lia.
Open Scope string_scope.

(* ---------- induction principle for leaf types ---------- *)
Section LInd.
  Variable P : leafty -> Prop.
  Hypotheses (Hi : P LInt) (Hs : P LStr) (Ha : P LAny)
             (Ht : forall ls, Forall P ls -> P (LTuple ls)) (Hu : forall ls, Forall P ls -> P (LUnion ls))
             (Harr : forall a, P (LArr a)) (Hb : P LPyTreeBare) (Hp : forall l s, P l -> P (LPyTree l s)).
  Fixpoint leafty_ind' (l : leafty) : P l :=
    let go := fix go (ls : list leafty) : Forall P ls :=
                match ls with [] => Forall_nil _ | x :: r => Forall_cons _ (leafty_ind' x) (go r) end in
    match l with
    | LInt => Hi | LStr => Hs | LAny => Ha
    | LTuple ls => Ht ls (go ls) | LUnion ls => Hu ls (go ls)
    | LArr a => Harr a | LPyTreeBare => Hb | LPyTree l s => Hp l s (leafty_ind' l)
    end.
End LInd.

(* ---------- frame: a check only ever touches the top context ---------- *)
Definition same_below (s s' : pstore) : Prop :=
  tl (ps_stack s') = tl (ps_stack s) /\ (ps_stack s = [] <-> ps_stack s' = []).

Lemma sb_refl s : same_below s s. Proof. split; [reflexivity | tauto]. Qed.
Lemma sb_trans a b c : same_below a b -> same_below b c -> same_below a c.
Proof. intros [H1 H2] [H3 H4]. split; [congruence | tauto]. Qed.
Lemma sb_set_top s f : same_below s (set_top s f).
Proof. unfold same_below, set_top. destruct (ps_stack s) eqn:E; cbn; rewrite ?E; split; try reflexivity; try tauto; split; discriminate. Qed.
Lemma sb_with_flat s b : same_below s (with_flat s b). Proof. split; cbn; [reflexivity | tauto]. Qed.
Lemma sb_with_path s p : same_below s (with_path s p). Proof. split; cbn; [reflexivity | tauto]. Qed.

Definition Frame (f : ptree -> pstore -> verdict * pstore) : Prop :=
  forall x s vd s', f x s = (vd, s') -> same_below s s'.

Section F.
Variable st : symtab.

(* unfolding equations: the local recursions are the named ones *)
Lemma flatten_with_eq isleaf x s :
  flatten_with isleaf x s =
  match isleaf x s with
  | (Raise e, s1) => (None, s1, Some e)
  | (Acc, s1) => (Some ([x], star), s1, None)
  | (Rej, s1) =>
      match x with
      | Leaf _ => (Some ([x], star), s1, None)
      | Node k cs =>
          let '(r, s2, e) := flatten_list isleaf cs s1 in
          match r with
          | Some (lvs, ds) => (Some (lvs, Node k ds), s2, e)
          | None => (None, s2, e)
          end
      end
  end.
Proof. destruct x; reflexivity. Qed.

Lemma leafmatch_tuple ls x s :
  leafmatch st (LTuple ls) x s =
  match x with Node KTuple cs | Node (KNamed _) cs => tuple_match st ls cs s | _ => (Rej, s) end.
Proof. reflexivity. Qed.

Lemma leafmatch_union ls x s : leafmatch st (LUnion ls) x s = union_match st x ls s.
Proof. reflexivity. Qed.

Lemma leafmatch_pytree l sopt x s :
  leafmatch st (LPyTree l sopt) x s =
  match x with Node KNone [] => (Acc, s) | _ => pytree_body st l sopt x s end.
Proof. reflexivity. Qed.

Lemma arr_check_frame a v s vd s' : arr_check st a v s = (vd, s') -> same_below s s'.
Proof.
  unfold arr_check. destruct (top_frame s) as [m t]. destruct (ps_stack s) eqn:E.
  - destruct (instancecheck (ps_flat s) (ps_path s) st a v []). intros H; inversion H; subst. apply sb_refl.
  - destruct (instancecheck (ps_flat s) (ps_path s) st a v [m]) as [vd0 s0]. intros H; inversion H; subst. apply sb_set_top.
Qed.

Lemma flatten_frame isleaf : Frame isleaf ->
  forall x s r s' e, flatten_with isleaf x s = (r, s', e) -> same_below s s'.
Proof.
  intros HF. induction x as [a|k cs IH] using tree_ind'; intros s r s' e H; rewrite flatten_with_eq in H.
  - destruct (isleaf (Leaf a) s) as [vd s1] eqn:E. pose proof (HF _ _ _ _ E) as B.
    destruct vd; inversion H; subst; exact B.
  - destruct (isleaf (Node k cs) s) as [vd s1] eqn:E. pose proof (HF _ _ _ _ E) as B.
    destruct vd; try (inversion H; subst; exact B).
    destruct (flatten_list isleaf cs s1) as [[r0 s2] e0] eqn:Eg.
    assert (B2 : same_below s1 s2).
    { clear H E B. revert s1 r0 s2 e0 Eg. induction IH as [|c rs Hc Hrs IHrs]; intros s1 r0 s2 e0 Eg; cbn [flatten_list] in Eg.
      - inversion Eg; subst. apply sb_refl.
      - destruct (flatten_with isleaf c s1) as [[rc sc] ec] eqn:Ec. pose proof (Hc _ _ _ _ Ec) as Bc.
        destruct rc as [[lv d]|].
        + destruct (flatten_list isleaf rs sc) as [[rr sr] er] eqn:Er.
          pose proof (IHrs _ _ _ _ Er) as Br.
          destruct rr as [[lvs ds]|]; inversion Eg; subst; eapply sb_trans; eauto.
        + inversion Eg; subst. exact Bc. }
    destruct r0 as [[lvs ds]|]; inversion H; subst; eapply sb_trans; eauto.
Qed.

Lemma leaf_loop_frame ischeck sopt : Frame ischeck ->
  forall lv i s vd s', leaf_loop ischeck sopt lv i s = (vd, s') -> same_below s s'.
Proof.
  intros HF. induction lv as [|leaf r IH]; intros i s vd s' H; cbn [leaf_loop] in H.
  - inversion H; apply sb_refl.
  - destruct sopt as [str|].
    + destruct (ps_path s); [inversion H; apply sb_refl|]. cbv zeta in H.
      destruct (ischeck leaf (with_path s (Some (label_of i str)))) as [v0 s0] eqn:E0.
      assert (B0 : same_below s s0) by (eapply sb_trans; [apply sb_with_path | eapply HF; eauto]).
      destruct v0; try (inversion H; subst; exact B0).
      eapply sb_trans; [exact B0 | eapply sb_trans; [apply sb_with_path | eapply IH; eauto]].
    + assert (H' : match ischeck leaf s with (Acc, s'') => leaf_loop ischeck None r (S i) (with_path s'' None) | (vd, s'') => (vd, s'') end = (vd, s'))
        by (destruct (ps_path s); exact H).
      destruct (ischeck leaf s) as [v0 s0] eqn:E0. pose proof (HF _ _ _ _ E0) as B0.
      destruct v0; try (inversion H'; subst; exact B0).
      eapply sb_trans; [exact B0 | eapply sb_trans; [apply sb_with_path | eapply IH; eauto]].
Qed.

Lemma pytree_body_frame l sopt : Frame (flat_fn st l) -> Frame (check_fn st l) -> Frame (pytree_body st l sopt).
Proof.
  intros Fflat Fcheck x s vd s' H. unfold pytree_body in H. cbv zeta in H.
  destruct (flatten_with (flat_fn st l) x (with_flat s true)) as [[fl s1] e] eqn:Ef.
  pose proof (flatten_frame _ Fflat _ _ _ _ _ Ef) as B1.
  assert (B2 : same_below s (with_flat s1 false)) by (eapply sb_trans; [apply (sb_with_flat s true) | eapply sb_trans; [exact B1 | apply sb_with_flat]]).
  destruct fl as [[leaves sx]|].
  2:{ inversion H; subst. eapply sb_trans; [exact B2 | apply sb_set_top]. }
  destruct (top_frame (with_flat s1 false)) as [m tm] eqn:Etf.
  destruct (match sopt with None => StOk tm | Some str => structure_step (read_structure str) sx tm end) as [tm'| |].
  - destruct (leaf_loop (check_fn st l) sopt leaves 0 (set_top (with_flat s1 false) (fst (m, tm), tm'))) as [vd4 s4] eqn:El.
    assert (B4 : same_below s s4) by (eapply sb_trans; [exact B2 | eapply sb_trans; [apply sb_set_top | eapply leaf_loop_frame; eauto]]).
    assert (B5 : same_below s (with_path s4 None)) by (eapply sb_trans; [exact B4 | apply sb_with_path]).
    destruct vd4; inversion H; subst; try exact B5; (eapply sb_trans; [exact B5 | apply sb_set_top]).
  - inversion H; subst. eapply sb_trans; [exact B2 | apply sb_set_top].
  - inversion H; subst. eapply sb_trans; [exact B2 | apply sb_set_top].
Qed.

Lemma leafmatch_frame : forall l, Frame (leafmatch st l).
Proof.
  induction l as [| | |ls IH|ls IH|a| |l sopt IH] using leafty_ind'; intros x s vd s' H.
  - cbn in H. inversion H; apply sb_refl.
  - cbn in H. inversion H; apply sb_refl.
  - cbn in H. inversion H; apply sb_refl.
  - (* tuple *)
    rewrite leafmatch_tuple in H.
    assert (G : forall cs s vd s', tuple_match st ls cs s = (vd, s') -> same_below s s').
    { clear x s vd s' H. induction IH as [|l1 lr Hl Hlr IHlr]; intros cs s vd s' H; cbn [tuple_match] in H.
      - destruct cs; inversion H; apply sb_refl.
      - destruct cs as [|c cr]; [inversion H; apply sb_refl|].
        destruct (leafmatch st l1 c s) as [v1 s1] eqn:E. pose proof (Hl _ _ _ _ E) as B.
        destruct v1; try (inversion H; subst; exact B). eapply sb_trans; [exact B | eapply IHlr; eauto]. }
    destruct x as [a|k cs]; [inversion H; apply sb_refl|].
    destruct k; try (inversion H; apply sb_refl); eapply G; eauto.
  - (* union *)
    rewrite leafmatch_union in H.
    revert s vd s' H. induction IH as [|l1 lr Hl Hlr IHlr]; intros s vd s' H; cbn [union_match] in H.
    + inversion H; apply sb_refl.
    + destruct (leafmatch st l1 x s) as [v1 s1] eqn:E. pose proof (Hl _ _ _ _ E) as B.
      destruct v1; try (inversion H; subst; exact B). eapply sb_trans; [exact B | eapply IHlr; eauto].
  - cbn [leafmatch] in H. destruct x as [[]|]; eapply arr_check_frame; eauto.
  - cbn in H. inversion H; apply sb_refl.
  - (* PyTree *)
    rewrite leafmatch_pytree in H.
    assert (Fflat : Frame (flat_fn st l)) by (unfold flat_fn; destruct l; try exact IH; intros ? ? ? ? E; inversion E; apply sb_refl).
    assert (Fcheck : Frame (check_fn st l)) by (unfold check_fn; destruct l; try exact IH; intros ? ? ? ? E; inversion E; apply sb_refl).
    pose proof (pytree_body_frame l sopt Fflat Fcheck) as FB.
    destruct x as [a|k cs]; [eapply FB; exact H|].
    destruct k; try (eapply FB; exact H). destruct cs; [inversion H; apply sb_refl | eapply FB; exact H].
Qed.

(* ---------- C04 / C08: a PyTree check that does not accept leaves the whole context stack as it was ---------- *)
Lemma set_top_restores s s2 : same_below s s2 -> ps_stack (set_top s2 (top_frame s)) = ps_stack s.
Proof.
  intros [Ht He]. unfold set_top, top_frame. destruct (ps_stack s2) as [|f2 r2] eqn:E2.
  - rewrite E2. symmetry. apply He. reflexivity.
  - cbn. destruct (ps_stack s) as [|f r] eqn:E.
    + exfalso. assert (H : f2 :: r2 = []) by (apply He; reflexivity). discriminate.
    + cbn in Ht. now subst.
Qed.

Theorem pytree_reject_restores l sopt x s vd s' :
  leafmatch st (LPyTree l sopt) x s = (vd, s') -> vd <> Acc -> ps_stack s' = ps_stack s.
Proof.
  intros H Hv. rewrite leafmatch_pytree in H.
  assert (Fflat : Frame (flat_fn st l)) by (unfold flat_fn; destruct l; try apply leafmatch_frame; intros ? ? ? ? E; inversion E; apply sb_refl).
  assert (Fcheck : Frame (check_fn st l)) by (unfold check_fn; destruct l; try apply leafmatch_frame; intros ? ? ? ? E; inversion E; apply sb_refl).
  assert (Main : pytree_body st l sopt x s = (vd, s') -> ps_stack s' = ps_stack s).
  { clear H. intros H. unfold pytree_body in H. cbv zeta in H.
    destruct (flatten_with (flat_fn st l) x (with_flat s true)) as [[fl s1] e] eqn:Ef.
    pose proof (flatten_frame _ Fflat _ _ _ _ _ Ef) as B1.
    assert (B2 : same_below s (with_flat s1 false)) by (eapply sb_trans; [apply (sb_with_flat s true) | eapply sb_trans; [exact B1 | apply sb_with_flat]]).
    destruct fl as [[leaves sx]|].
    2:{ inversion H; subst. apply set_top_restores. exact B2. }
    destruct (top_frame (with_flat s1 false)) as [m tm] eqn:Etf.
    destruct (match sopt with None => StOk tm | Some str => structure_step (read_structure str) sx tm end) as [tm'| |].
    - destruct (leaf_loop (check_fn st l) sopt leaves 0 (set_top (with_flat s1 false) (fst (m, tm), tm'))) as [vd4 s4] eqn:El.
      assert (B4 : same_below s s4) by (eapply sb_trans; [exact B2 | eapply sb_trans; [apply sb_set_top | eapply leaf_loop_frame; eauto]]).
      assert (B5 : same_below s (with_path s4 None)) by (eapply sb_trans; [exact B4 | apply sb_with_path]).
      destruct vd4; inversion H; subst; try congruence; apply set_top_restores; exact B5.
    - inversion H; subst. apply set_top_restores. exact B2.
    - inversion H; subst. apply set_top_restores. exact B2. }
  destruct x as [a|k cs]; [apply Main; exact H|].
  destruct k; try (apply Main; exact H). destruct cs; [inversion H; subst; congruence | apply Main; exact H].
Qed.

(* ---------- C12: the flatten mode and the '?'-leaf position never outlive the check that set them ---------- *)
Definition Inv (P : pstore -> Prop) (f : ptree -> pstore -> verdict * pstore) : Prop :=
  forall x s vd s', f x s = (vd, s') -> P s -> P s'.

Section Keep.
Variable P : pstore -> Prop.
Hypothesis P_set_top : forall s f, P s -> P (set_top s f).
Hypothesis P_body : forall l sopt, Inv P (flat_fn st l) -> Inv P (check_fn st l) -> Inv P (pytree_body st l sopt).

Lemma P_arr a v s vd s' : arr_check st a v s = (vd, s') -> P s -> P s'.
Proof.
  unfold arr_check. destruct (top_frame s) as [m t]. destruct (ps_stack s) eqn:E.
  - destruct (instancecheck (ps_flat s) (ps_path s) st a v []). intros H; inversion H; subst. auto.
  - destruct (instancecheck (ps_flat s) (ps_path s) st a v [m]) as [vd0 s0]. intros H; inversion H; subst. auto.
Qed.

Lemma flatten_inv isleaf : Inv P isleaf -> forall x s r s' e, flatten_with isleaf x s = (r, s', e) -> P s -> P s'.
Proof.
  intros HF. induction x as [a|k cs IH] using tree_ind'; intros s r s' e H Hp; rewrite flatten_with_eq in H.
  - destruct (isleaf (Leaf a) s) as [vd s1] eqn:E. pose proof (HF _ _ _ _ E Hp) as B. destruct vd; inversion H; subst; exact B.
  - destruct (isleaf (Node k cs) s) as [vd s1] eqn:E. pose proof (HF _ _ _ _ E Hp) as B.
    destruct vd; try (inversion H; subst; exact B).
    destruct (flatten_list isleaf cs s1) as [[r0 s2] e0] eqn:Eg.
    assert (B2 : P s2).
    { clear H E. revert s1 r0 s2 e0 Eg B. induction IH as [|c rs Hc Hrs IHrs]; intros s1 r0 s2 e0 Eg B; cbn [flatten_list] in Eg.
      - inversion Eg; subst. exact B.
      - destruct (flatten_with isleaf c s1) as [[rc sc] ec] eqn:Ec. pose proof (Hc _ _ _ _ Ec B) as Bc.
        destruct rc as [[lv d]|].
        + destruct (flatten_list isleaf rs sc) as [[rr sr] er] eqn:Er. pose proof (IHrs _ _ _ _ Er Bc) as Br.
          destruct rr as [[lvs ds]|]; inversion Eg; subst; exact Br.
        + inversion Eg; subst. exact Bc. }
    destruct r0 as [[lvs ds]|]; inversion H; subst; exact B2.
Qed.

Theorem leafmatch_inv : forall l, Inv P (leafmatch st l).
Proof.
  induction l as [| | |ls IH|ls IH|a| |l sopt IH] using leafty_ind'; intros x s vd s' H Hp.
  - cbn in H. inversion H; subst; exact Hp.
  - cbn in H. inversion H; subst; exact Hp.
  - cbn in H. inversion H; subst; exact Hp.
  - rewrite leafmatch_tuple in H.
    assert (G : forall cs s vd s', tuple_match st ls cs s = (vd, s') -> P s -> P s').
    { clear x s vd s' H Hp. induction IH as [|l1 lr Hl Hlr IHlr]; intros cs s vd s' H Hp; cbn [tuple_match] in H.
      - destruct cs; inversion H; subst; exact Hp.
      - destruct cs as [|c cr]; [inversion H; subst; exact Hp|].
        destruct (leafmatch st l1 c s) as [v1 s1] eqn:E. pose proof (Hl _ _ _ _ E Hp) as B.
        destruct v1; try (inversion H; subst; exact B). eapply IHlr; eauto. }
    destruct x as [a|k cs]; [inversion H; subst; exact Hp|].
    destruct k; try (inversion H; subst; exact Hp); eapply G; eauto.
  - rewrite leafmatch_union in H.
    revert s vd s' H Hp. induction IH as [|l1 lr Hl Hlr IHlr]; intros s vd s' H Hp; cbn [union_match] in H.
    + inversion H; subst; exact Hp.
    + destruct (leafmatch st l1 x s) as [v1 s1] eqn:E. pose proof (Hl _ _ _ _ E Hp) as B.
      destruct v1; try (inversion H; subst; exact B). eapply IHlr; eauto.
  - cbn [leafmatch] in H. destruct x as [[]|]; eapply P_arr; eauto.
  - cbn in H. inversion H; subst; exact Hp.
  - rewrite leafmatch_pytree in H.
    assert (Fflat : Inv P (flat_fn st l)) by (unfold flat_fn; destruct l; try exact IH; intros ? ? ? ? E Hq; inversion E; subst; exact Hq).
    assert (Fcheck : Inv P (check_fn st l)) by (unfold check_fn; destruct l; try exact IH; intros ? ? ? ? E Hq; inversion E; subst; exact Hq).
    pose proof (P_body l sopt Fflat Fcheck) as FB.
    destruct x as [a|k cs]; [eapply FB; [exact H | exact Hp]|].
    destruct k; try (eapply FB; [exact H | exact Hp]). destruct cs; [inversion H; subst; exact Hp | eapply FB; [exact H | exact Hp]].
Qed.
End Keep.

Lemma set_top_flat s f : ps_flat (set_top s f) = ps_flat s.
Proof. unfold set_top. destruct (ps_stack s); reflexivity. Qed.
Lemma set_top_path s f : ps_path (set_top s f) = ps_path s.
Proof. unfold set_top. destruct (ps_stack s); reflexivity. Qed.

Definition flat_off (s : pstore) : Prop := ps_flat s = false.
Definition path_clear (s : pstore) : Prop := ps_path s = None.

Lemma leaf_loop_flat ischeck sopt : Inv flat_off ischeck ->
  forall lv i s vd s', leaf_loop ischeck sopt lv i s = (vd, s') -> flat_off s -> flat_off s'.
Proof.
  intros HF. induction lv as [|leaf r IH]; intros i s vd s' H Hp; cbn [leaf_loop] in H.
  - inversion H; subst; exact Hp.
  - destruct sopt as [str|].
    + destruct (ps_path s); [inversion H; subst; exact Hp|]. cbv zeta in H.
      destruct (ischeck leaf (with_path s (Some (label_of i str)))) as [v0 s0] eqn:E0.
      assert (B0 : flat_off s0) by (eapply HF; [exact E0 | exact Hp]).
      destruct v0; try (inversion H; subst; exact B0). eapply IH; [exact H | exact B0].
    + assert (H' : match ischeck leaf s with (Acc, s'') => leaf_loop ischeck None r (S i) (with_path s'' None) | (vd, s'') => (vd, s'') end = (vd, s'))
        by (destruct (ps_path s); exact H).
      destruct (ischeck leaf s) as [v0 s0] eqn:E0. pose proof (HF _ _ _ _ E0 Hp) as B0.
      destruct v0; try (inversion H'; subst; exact B0). eapply IH; [exact H' | exact B0].
Qed.

Lemma body_flat l sopt : Inv flat_off (flat_fn st l) -> Inv flat_off (check_fn st l) -> Inv flat_off (pytree_body st l sopt).
Proof.
  intros _ Fcheck x s vd s' H _. unfold pytree_body in H. cbv zeta in H. unfold flat_off.
  destruct (flatten_with (flat_fn st l) x (with_flat s true)) as [[fl s1] e].
  destruct fl as [[leaves sx]|]; [|inversion H; subst; now rewrite set_top_flat].
  destruct (top_frame (with_flat s1 false)) as [m tm].
  destruct (match sopt with None => StOk tm | Some str => structure_step (read_structure str) sx tm end) as [tm'| |];
    try (inversion H; subst; now rewrite set_top_flat).
  destruct (leaf_loop (check_fn st l) sopt leaves 0 (set_top (with_flat s1 false) (fst (m, tm), tm'))) as [vd4 s4] eqn:El.
  assert (B4 : flat_off s4) by (eapply leaf_loop_flat; [exact Fcheck | exact El | unfold flat_off; now rewrite set_top_flat]).
  destruct vd4; inversion H; subst; cbn; try rewrite set_top_flat; exact B4.
Qed.

Lemma body_path l sopt : Inv path_clear (flat_fn st l) -> Inv path_clear (check_fn st l) -> Inv path_clear (pytree_body st l sopt).
Proof.
  intros Fflat _ x s vd s' H Hp. unfold pytree_body in H. cbv zeta in H. unfold path_clear in *.
  destruct (flatten_with (flat_fn st l) x (with_flat s true)) as [[fl s1] e] eqn:Ef.
  assert (B1 : ps_path s1 = None) by (eapply (flatten_inv path_clear _ Fflat); [exact Ef | exact Hp]).
  destruct fl as [[leaves sx]|]; [|inversion H; subst; rewrite set_top_path; exact B1].
  destruct (top_frame (with_flat s1 false)) as [m tm].
  destruct (match sopt with None => StOk tm | Some str => structure_step (read_structure str) sx tm end) as [tm'| |];
    try (inversion H; subst; rewrite set_top_path; exact B1).
  destruct (leaf_loop (check_fn st l) sopt leaves 0 (set_top (with_flat s1 false) (fst (m, tm), tm'))) as [vd4 s4].
  destruct vd4; inversion H; subst; cbn; try rewrite set_top_path; reflexivity.
Qed.

(* whatever happens during a check -- rejection, AnnotationError, an exception of any class raised by a leaf
   check or during flattening -- afterwards the flatten mode is off and no leaf position is set *)
Theorem check_leaves_flatten_mode_off l x s vd s' :
  leafmatch st l x s = (vd, s') -> ps_flat s = false -> ps_flat s' = false.
Proof. apply (leafmatch_inv flat_off); [intros; unfold flat_off in *; now rewrite set_top_flat | exact body_flat]. Qed.

Theorem check_leaves_no_leaf_position l x s vd s' :
  leafmatch st l x s = (vd, s') -> ps_path s = None -> ps_path s' = None.
Proof. apply (leafmatch_inv path_clear); [intros; unfold path_clear in *; now rewrite set_top_path | exact body_path]. Qed.

End F.

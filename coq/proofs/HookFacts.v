(* HookFacts.v -- the import hook's source transformation only adds (C10). *)
From JT Require Import model.HookAst.
From Coq Require Import Lia.
Open Scope string_scope.
Open Scope list_scope.

(* ---------- induction principle for the AST ---------- *)
Section AInd.
Variable P : ast -> Prop.
Definition PF (f : field) : Prop := match f with FScalar _ => True | FNode x => P x | FList xs => Forall P xs end.
Hypothesis H : forall c l fs, Forall (fun nf => PF (snd nf)) fs -> P (N c l fs).
Fixpoint ast_ind' (a : ast) : P a :=
  match a with
  | N c l fs =>
      H c l fs ((fix go (fs : list (string * field)) : Forall (fun nf => PF (snd nf)) fs :=
                   match fs with
                   | [] => Forall_nil _
                   | (n, f) :: r =>
                       Forall_cons (n, f)
                         (match f return PF f with
                          | FScalar _ => I
                          | FNode x => ast_ind' x
                          | FList xs => (fix gol (xs : list ast) : Forall P xs :=
                                           match xs with [] => Forall_nil _ | x :: r => Forall_cons x (ast_ind' x) (gol r) end) xs
                          end) (go r)
                   end) fs)
  end.
End AInd.

(* ---------- mapping over the fields of a node ---------- *)
Section MF.
Variable g : ast -> ast.
Fixpoint map_asts (xs : list ast) : list ast := match xs with [] => [] | x :: r => g x :: map_asts r end.
Fixpoint map_fields (fs : list (string * field)) : list (string * field) :=
  match fs with
  | [] => []
  | (n, f) :: r =>
      (n, match f with FScalar s => FScalar s | FNode x => FNode (g x) | FList xs => FList (map_asts xs) end) :: map_fields r
  end.
End MF.

Definition post_x (dec : ast) (c : string) (l : loc) (fs' : list (string * field)) : list (string * field) :=
  if String.eqb c "Module" then
    match get_field "body" fs' with Some (FList b) => set_field "body" (FList (insert_import b)) fs' | _ => fs' end
  else if String.eqb c "ClassDef" then
    match get_field "decorator_list" fs' with Some (FList d) => set_field "decorator_list" (FList (relocate dec l :: d)) fs' | _ => fs' end
  else if String.eqb c "FunctionDef" then
    match get_field "decorator_list" fs' with Some (FList d) => set_field "decorator_list" (FList (d ++ [relocate dec l])) fs' | _ => fs' end
  else fs'.

Definition post_s (c : string) (fs' : list (string * field)) : list (string * field) :=
  if String.eqb c "Module" then
    match get_field "body" fs' with Some (FList b) => set_field "body" (FList (remove_import b)) fs' | _ => fs' end
  else if String.eqb c "ClassDef" then
    match get_field "decorator_list" fs' with Some (FList d) => set_field "decorator_list" (FList (tl d)) fs' | _ => fs' end
  else if String.eqb c "FunctionDef" then
    match get_field "decorator_list" fs' with Some (FList d) => set_field "decorator_list" (FList (removelast d)) fs' | _ => fs' end
  else fs'.

Lemma xform_eq dec c l fs : xform dec (N c l fs) = N c l (post_x dec c l (map_fields (xform dec) fs)).
Proof. reflexivity. Qed.
Lemma strip_eq c l fs : strip (N c l fs) = N c l (post_s c (map_fields (strip) fs)).
Proof. reflexivity. Qed.

(* ---------- fields ---------- *)
Lemma get_set_same name v fs f0 : get_field name fs = Some f0 -> get_field name (set_field name v fs) = Some v.
Proof. induction fs as [|[n f] r IH]; cbn; [discriminate|]. destruct (String.eqb n name) eqn:E; cbn; rewrite E; auto. Qed.

Lemma set_set name v v' fs : set_field name v (set_field name v' fs) = set_field name v fs.
Proof. induction fs as [|[n f] r IH]; cbn; [reflexivity|]. destruct (String.eqb n name) eqn:E; cbn; rewrite E; [reflexivity | now rewrite IH]. Qed.

Lemma set_get_id name fs f0 : get_field name fs = Some f0 -> set_field name f0 fs = fs.
Proof. induction fs as [|[n f] r IH]; cbn; [reflexivity|]. destruct (String.eqb n name) eqn:E; [intros H; inversion H; reflexivity | intros H; now rewrite IH]. Qed.

Lemma get_map g name fs :
  get_field name (map_fields g fs) =
  match get_field name fs with
  | None => None
  | Some (FScalar s) => Some (FScalar s)
  | Some (FNode x) => Some (FNode (g x))
  | Some (FList xs) => Some (FList (map_asts g xs))
  end.
Proof. induction fs as [|[n f] r IH]; cbn; [reflexivity|]. destruct (String.eqb n name); [destruct f; reflexivity | exact IH]. Qed.

Lemma map_set g name xs fs :
  map_fields g (set_field name (FList xs) fs) = set_field name (FList (map_asts g xs)) (map_fields g fs).
Proof. induction fs as [|[n f] r IH]; cbn; [reflexivity|]. destruct (String.eqb n name); cbn; [reflexivity | now rewrite IH]. Qed.

Lemma map_asts_app g a b : map_asts g (a ++ b) = map_asts g a ++ map_asts g b.
Proof. induction a; cbn; [reflexivity | now f_equal]. Qed.

(* ---------- equality test ---------- *)
Lemma ast_eqb_refl : forall a, ast_eqb a a = true.
Proof.
  apply ast_ind'. intros c l fs IH. cbn [ast_eqb]. rewrite String.eqb_refl. cbn [andb].
  assert (Hl : match l with None => true | Some (x1, x2, x3, x4) => match l with Some (y1, y2, y3, y4) => (x1 =? y1)%Z && (x2 =? y2)%Z && (x3 =? y3)%Z && (x4 =? y4)%Z | None => false end end = true).
  { destruct l as [[[[a b] c0] d]|]; [|reflexivity]. now rewrite !Z.eqb_refl. }
  destruct l as [[[[a b] c0] d]|]; [rewrite !Z.eqb_refl|]; cbn [andb];
  (induction IH as [|[n f] r Hf Hr IHr]; [reflexivity|]; rewrite String.eqb_refl; cbn [andb];
   destruct f as [s|x|xs]; cbn in Hf;
   [rewrite String.eqb_refl; exact IHr | rewrite Hf; exact IHr |
    assert (G : (fix gol (xs ys : list ast) : bool := match xs, ys with [], [] => true | x :: r, y :: r' => ast_eqb x y && gol r r' | _, _ => false end) xs xs = true)
      by (induction Hf as [|x r' Hx Hr' IHr']; [reflexivity | now rewrite Hx, IHr']);
    rewrite G; exact IHr]).
Qed.

(* ---------- the added nodes contain no def / class, so re-visiting them changes nothing ---------- *)
Lemma closed_eq c l fs :
  closed (N c l fs) =
  negb (String.eqb c "Module" || String.eqb c "ClassDef" || String.eqb c "FunctionDef") &&
  forallb (fun nf => match snd nf with FScalar _ => true | FNode x => closed x | FList xs => forallb closed xs end) fs.
Proof.
  cbn [closed]. f_equal. induction fs as [|[n f] r IH]; [reflexivity|]. cbn [forallb snd]. rewrite <- IH. destruct f as [s|x|xs]; reflexivity.
Qed.

Theorem closed_xform_id dec : forall a, closed a = true -> xform dec a = a.
Proof.
  apply (ast_ind' (fun a => closed a = true -> xform dec a = a)). intros c l fs IH Hc.
  rewrite closed_eq in Hc. apply andb_true_iff in Hc as [Hcls Hfs].
  rewrite xform_eq. f_equal.
  assert (Hm : map_fields (xform dec) fs = fs).
  { clear Hcls. induction IH as [|[n f] r Hf Hr IHr]; [reflexivity|]. cbn [forallb snd] in Hfs. apply andb_true_iff in Hfs as [H1 H2].
    cbn [map_fields]. rewrite (IHr H2). f_equal. f_equal. destruct f as [s|x|xs]; cbn in Hf.
    - reflexivity.
    - now rewrite (Hf H1).
    - f_equal. induction Hf as [|x r' Hx Hr' IHr']; [reflexivity|]. cbn [forallb] in H1. apply andb_true_iff in H1 as [Ha Hb].
      cbn [map_asts]. now rewrite (Hx Ha), (IHr' Hb). }
  rewrite Hm. unfold post_x.
  apply negb_true_iff in Hcls. apply orb_false_iff in Hcls as [Hcls H3]. apply orb_false_iff in Hcls as [H1 H2].
  now rewrite H1, H2, H3.
Qed.

Theorem closed_strip_id : forall a, closed a = true -> strip a = a.
Proof.
  apply (ast_ind' (fun a => closed a = true -> strip a = a)). intros c l fs IH Hc.
  rewrite closed_eq in Hc. apply andb_true_iff in Hc as [Hcls Hfs].
  rewrite strip_eq. f_equal.
  assert (Hm : map_fields (strip) fs = fs).
  { clear Hcls. induction IH as [|[n f] r Hf Hr IHr]; [reflexivity|]. cbn [forallb snd] in Hfs. apply andb_true_iff in Hfs as [H1 H2].
    cbn [map_fields]. rewrite (IHr H2). f_equal. f_equal. destruct f as [s|x|xs]; cbn in Hf.
    - reflexivity.
    - now rewrite (Hf H1).
    - f_equal. induction Hf as [|x r' Hx Hr' IHr']; [reflexivity|]. cbn [forallb] in H1. apply andb_true_iff in H1 as [Ha Hb].
      cbn [map_asts]. now rewrite (Hx Ha), (IHr' Hb). }
  rewrite Hm. unfold post_s.
  apply negb_true_iff in Hcls. apply orb_false_iff in Hcls as [Hcls H3]. apply orb_false_iff in Hcls as [H1 H2].
  now rewrite H1, H2, H3.
Qed.

Lemma closed_relocate dec l : closed dec = true -> closed (relocate dec l) = true.
Proof. destruct dec as [c l0 fs]. cbn [relocate]. rewrite !closed_eq. auto. Qed.

Lemma closed_the_import : closed the_import = true. Proof. reflexivity. Qed.

(* ---------- the import ---------- *)
Lemma the_import_not_prefix : is_future_import the_import || is_const_expr the_import = false.
Proof. reflexivity. Qed.

(* what is in front of the inserted import is the module's own legal prefix, unchanged *)
Theorem insert_import_spec body :
  (exists pre rest, body = pre ++ rest /\ insert_import body = pre ++ the_import :: rest /\
      forallb (fun s => is_future_import s || is_const_expr s) pre = true /\
      match rest with s :: _ => is_future_import s || is_const_expr s = false | [] => False end)
  \/ (forallb (fun s => is_future_import s || is_const_expr s) body = true /\ insert_import body = body).
Proof.
  induction body as [|s r IH]; [right; auto|]. cbn [insert_import forallb].
  destruct (is_future_import s || is_const_expr s) eqn:E.
  - destruct IH as [[pre [rest [H1 [H2 [H3 H4]]]]]|[H1 H2]].
    + left. exists (s :: pre), rest. cbn. rewrite E, H3. subst. rewrite H2. auto.
    + right. rewrite H2. auto.
  - left. exists [], (s :: r). cbn. auto.
Qed.

Lemma remove_insert body : remove_import (insert_import body) = body.
Proof.
  induction body as [|s r IH]; [reflexivity|]. cbn [insert_import].
  destruct (is_future_import s || is_const_expr s) eqn:E.
  - cbn [remove_import]. now rewrite E, IH.
  - cbn [remove_import]. rewrite the_import_not_prefix. now rewrite ast_eqb_refl.
Qed.

(* is_future_import / is_const_expr look at the class, a scalar, and a child's class only: unaffected by the transformation *)
Lemma cls_xform dec a : cls_of (xform dec a) = cls_of a.
Proof. destruct a as [c l fs]. reflexivity. Qed.

Lemma get_post_x_other dec c l fs name :
  name <> "body" -> name <> "decorator_list" -> get_field name (post_x dec c l fs) = get_field name fs.
Proof.
  intros H1 H2. unfold post_x.
  assert (G : forall v fs0 n0, name <> n0 -> get_field name (set_field n0 v fs0) = get_field name fs0).
  { intros v fs0 n0 Hn. induction fs0 as [|[n f] r IH]; cbn; [reflexivity|]. destruct (String.eqb n n0) eqn:E; cbn.
    - apply String.eqb_eq in E. subst n0. destruct (String.eqb n name) eqn:E'; [apply String.eqb_eq in E'; congruence | reflexivity].
    - destruct (String.eqb n name); [reflexivity | exact IH]. }
  destruct (String.eqb c "Module"); [destruct (get_field "body" fs) as [[| |b]|]; try reflexivity; now apply G|].
  destruct (String.eqb c "ClassDef"); [destruct (get_field "decorator_list" fs) as [[| |d]|]; try reflexivity; now apply G|].
  destruct (String.eqb c "FunctionDef"); [destruct (get_field "decorator_list" fs) as [[| |d]|]; try reflexivity; now apply G|].
  reflexivity.
Qed.

Lemma prefix_tests_stable dec s :
  is_future_import (xform dec s) = is_future_import s /\ is_const_expr (xform dec s) = is_const_expr s.
Proof.
  destruct s as [c l fs]. unfold is_future_import, is_const_expr. rewrite xform_eq. cbn [cls_of fields_of].
  rewrite !get_post_x_other by discriminate. rewrite !get_map. split.
  - destruct (get_field "module" fs) as [[s|x|xs]|]; reflexivity.
  - destruct (get_field "value" fs) as [[s|x|xs]|]; try reflexivity. now rewrite cls_xform.
Qed.

Lemma insert_import_xform dec body :
  insert_import (map_asts (xform dec) body) =
  match insert_import body with
  | _ => (fix go (b : list ast) : list ast :=
            match b with
            | [] => []
            | s :: r => if is_future_import s || is_const_expr s then xform dec s :: go r else the_import :: xform dec s :: map_asts (xform dec) r
            end) body
  end.
Proof.
  induction body as [|s r IH]; [reflexivity|]. cbn [map_asts insert_import].
  destruct (prefix_tests_stable dec s) as [-> ->]. destruct (is_future_import s || is_const_expr s); [now rewrite IH | reflexivity].
Qed.

(* ---------- the main theorem: removing the additions gives back the original tree, node for node,
   locations and scalars included ---------- *)
Lemma remove_insert_mapped dec body :
  (forall s, In s body -> strip (xform dec s) = s) ->
  remove_import (map_asts strip (insert_import (map_asts (xform dec) body))) = body.
Proof.
  induction body as [|s r IH]; intros Hs; [reflexivity|]. cbn [map_asts insert_import].
  destruct (prefix_tests_stable dec s) as [E1 E2]. rewrite E1, E2.
  assert (Hs0 : strip (xform dec s) = s) by (apply Hs; left; reflexivity).
  assert (Hr : forall x, In x r -> strip (xform dec x) = x) by (intros x Hx; apply Hs; right; exact Hx).
  destruct (is_future_import s || is_const_expr s) eqn:E.
  - cbn [map_asts remove_import]. rewrite Hs0, E. now rewrite IH.
  - cbn [map_asts remove_import]. rewrite (closed_strip_id the_import closed_the_import).
    rewrite the_import_not_prefix, ast_eqb_refl. rewrite Hs0. f_equal.
    clear -Hr. induction r as [|x r IH]; [reflexivity|]. cbn [map_asts]. rewrite (Hr x) by (left; reflexivity). f_equal. apply IH. intros y Hy. apply Hr. right. exact Hy.
Qed.

Lemma removelast_app_one {A} (l : list A) x : removelast (l ++ [x]) = l.
Proof. induction l as [|a l IH]; [reflexivity|]. cbn. destruct (l ++ [x]) eqn:E; [destruct l; discriminate | now rewrite IH]. Qed.

Theorem strip_xform dec : closed dec = true -> forall t, strip (xform dec t) = t.
Proof.
  intros Hdec. apply ast_ind'. intros c l fs IH.
  rewrite xform_eq.
  (* the children, mapped back and forth *)
  assert (Hm : map_fields strip (map_fields (xform dec) fs) = fs).
  { induction IH as [|[n f] r Hf Hr IHr]; [reflexivity|]. cbn [map_fields]. rewrite IHr. f_equal. f_equal.
    destruct f as [s|x|xs]; cbn in Hf; [reflexivity | now rewrite Hf |].
    f_equal. induction Hf as [|x r' Hx Hr' IHr']; [reflexivity|]. cbn [map_asts]. now rewrite Hx, IHr'. }
  assert (Hlist : forall name xs, get_field name fs = Some (FList xs) -> forall x, In x xs -> strip (xform dec x) = x).
  { intros name xs Hg. clear Hm. induction IH as [|[n f] r Hf Hr IHr]; [discriminate|]. cbn in Hg. destruct (String.eqb n name).
    - inversion Hg; subst f. cbn in Hf. intros x Hx. rewrite Forall_forall in Hf. now apply Hf.
    - now apply IHr. }
  set (fs' := map_fields (xform dec) fs) in *.
  unfold post_x. rewrite strip_eq.
  destruct (String.eqb c "Module") eqn:Ec1.
  - (* Module *)
    unfold fs'. rewrite get_map. destruct (get_field "body" fs) as [[s|x|b]|] eqn:Eb.
    + fold fs'. rewrite Hm. unfold post_s. rewrite Ec1, Eb. reflexivity.
    + fold fs'. rewrite Hm. unfold post_s. rewrite Ec1, Eb. reflexivity.
    + fold fs'. rewrite map_set, Hm. unfold post_s. rewrite Ec1.
      rewrite (get_set_same _ _ _ _ Eb). rewrite set_set.
      rewrite (remove_insert_mapped dec b (Hlist _ _ Eb)). now rewrite (set_get_id _ _ _ Eb).
    + fold fs'. rewrite Hm. unfold post_s. rewrite Ec1, Eb. reflexivity.
  - destruct (String.eqb c "ClassDef") eqn:Ec2.
    + unfold fs'. rewrite get_map. destruct (get_field "decorator_list" fs) as [[s|x|d]|] eqn:Eb; fold fs'.
      * rewrite Hm. unfold post_s. rewrite Ec1, Ec2, Eb. reflexivity.
      * rewrite Hm. unfold post_s. rewrite Ec1, Ec2, Eb. reflexivity.
      * rewrite map_set, Hm. unfold post_s. rewrite Ec1, Ec2. rewrite (get_set_same _ _ _ _ Eb), set_set.
        cbn [map_asts tl].
        assert (Hd : map_asts strip (map_asts (xform dec) d) = d).
        { pose proof (Hlist _ _ Eb) as Hl. clear -Hl. induction d as [|x r IH]; [reflexivity|]. cbn [map_asts]. rewrite (Hl x) by (left; reflexivity). f_equal. apply IH. intros y Hy. apply Hl. right. exact Hy. }
        rewrite Hd. now rewrite (set_get_id _ _ _ Eb).
      * rewrite Hm. unfold post_s. rewrite Ec1, Ec2, Eb. reflexivity.
    + destruct (String.eqb c "FunctionDef") eqn:Ec3.
      * unfold fs'. rewrite get_map. destruct (get_field "decorator_list" fs) as [[s|x|d]|] eqn:Eb; fold fs'.
        -- rewrite Hm. unfold post_s. rewrite Ec1, Ec2, Ec3, Eb. reflexivity.
        -- rewrite Hm. unfold post_s. rewrite Ec1, Ec2, Ec3, Eb. reflexivity.
        -- rewrite map_set, Hm. unfold post_s. rewrite Ec1, Ec2, Ec3. rewrite (get_set_same _ _ _ _ Eb), set_set.
           rewrite map_asts_app. cbn [map_asts]. rewrite removelast_app_one.
           assert (Hd : map_asts strip (map_asts (xform dec) d) = d).
           { pose proof (Hlist _ _ Eb) as Hl. clear -Hl. induction d as [|x r IH]; [reflexivity|]. cbn [map_asts]. rewrite (Hl x) by (left; reflexivity). f_equal. apply IH. intros y Hy. apply Hl. right. exact Hy. }
           rewrite Hd. now rewrite (set_get_id _ _ _ Eb).
        -- rewrite Hm. unfold post_s. rewrite Ec1, Ec2, Ec3, Eb. reflexivity.
      * rewrite Hm. unfold post_s. now rewrite Ec1, Ec2, Ec3.
Qed.

(* IdemFacts.v -- C04's second half for PyTrees: repeating a PyTree check that passed passes again and changes no
   binding, for array leaf types (PyTree[Dtype[Array, dims]] and PyTree[Dtype[Array, dims], structure], '?' axes included).
   The flatten phase runs in "array type only" mode and is independent of the bindings; a structure name bound by the
   first run compares equal in the second; the leaf loop is a walk of array checks (each under its own '?' label), which
   re-accepts from any later state of the context (TwoPassFacts.instancecheck_acc_inv). *)
From JT Require Import model.PyTreeCheck proofs.CheckFacts proofs.TwoPassFacts proofs.TreeFacts proofs.PyTreeFacts.
Open Scope string_scope.

Section Idem.
Variables (st : symtab) (a : annot).
Hypothesis Hwf : wf_annot a.

Definition val_of (x : ptree) : value := match x with Leaf (PArr v) => v | _ => not_array end.

Lemma leafmatch_arr x s : leafmatch st (LArr a) x s = arr_check st a (val_of x) s.
Proof. destruct x as [[]|]; reflexivity. Qed.

(* in flatten mode an array check looks at the array type only and leaves the store alone *)
Definition fv (v : value) : verdict := if negb (if a_any a then v_attrs v else v_inst v) then Rej else Acc.

Lemma set_top_top stack path flat f r : stack = f :: r -> set_top (mkps stack path flat) f = mkps stack path flat.
Proof. intros ->. reflexivity. Qed.

Lemma arr_check_flat v stack path : arr_check st a v (mkps stack path true) = (fv v, mkps stack path true).
Proof.
  destruct Hwf as [Hskip _]. unfold arr_check, top_frame, instancecheck, fv. cbn [ps_stack ps_flat ps_path]. rewrite Hskip.
  destruct stack as [|[m t] r].
  - destruct (negb (if a_any a then v_attrs v else v_inst v)); reflexivity.
  - destruct (negb (if a_any a then v_attrs v else v_inst v)); reflexivity.
Qed.

Definition isl := leafmatch st (LArr a).

Lemma isl_flat x stack path : isl x (mkps stack path true) = (fv (val_of x), mkps stack path true).
Proof. unfold isl. rewrite leafmatch_arr. apply arr_check_flat. Qed.

(* the flatten phase: same leaves and same structure whatever the bindings, store untouched, never raises *)
Lemma flatten_flat x : forall st1 p1 st2 p2, exists fl,
  flatten_with isl x (mkps st1 p1 true) = (fl, mkps st1 p1 true, None) /\
  flatten_with isl x (mkps st2 p2 true) = (fl, mkps st2 p2 true, None).
Proof.
  induction x as [p|k cs IH] using tree_ind'; intros st1 p1 st2 p2; rewrite !flatten_with_eq, !isl_flat; unfold fv.
  - destruct (negb (if a_any a then v_attrs (val_of (Leaf p)) else v_inst (val_of (Leaf p)))); eexists; split; reflexivity.
  - destruct (negb (if a_any a then v_attrs (val_of (Node k cs)) else v_inst (val_of (Node k cs)))); [|eexists; split; reflexivity].
    assert (G : exists fls, flatten_list isl cs (mkps st1 p1 true) = (fls, mkps st1 p1 true, None) /\
                            flatten_list isl cs (mkps st2 p2 true) = (fls, mkps st2 p2 true, None)).
    { induction IH as [|c r Hc Hr IHr]; cbn [flatten_list]; [eexists; split; reflexivity|].
      destruct (Hc st1 p1 st2 p2) as [fl [E1 E2]]. rewrite E1, E2. destruct fl as [[lv d]|]; [|eexists; split; reflexivity].
      destruct IHr as [fls [E3 E4]]. rewrite E3, E4. destruct fls as [[lvs ds]|]; eexists; split; reflexivity. }
    destruct G as [fls [E1 E2]]. rewrite E1, E2. destruct fls as [[lvs ds]|]; eexists; split; reflexivity.
Qed.

(* a structure name bound (or compared) by the first run compares equal in the second *)
Lemma structure_step_again spec sx tm tm' : structure_step spec sx tm = StOk tm' -> structure_step spec sx tm' = StOk tm'.
Proof.
  destruct spec as [n|pre suf names]; cbn [structure_step].
  - destruct (aget tm n) as [prev|] eqn:E.
    + destruct (tdef_eqb prev sx) eqn:Eq; [|discriminate]. intros H; inversion H; subst tm'. rewrite E, Eq. reflexivity.
    + intros H; inversion H; subst tm'. rewrite aget_aset_same, tdef_eqb_refl. reflexivity.
  - destruct (lookup_all tm names) as [ds|] eqn:E; [|discriminate].
    destruct pre.
    + destruct (is_prefix (compose_impl ds) sx) eqn:Ep; [|discriminate]. intros H; inversion H; subst tm'. now rewrite E, Ep.
    + destruct suf.
      * destruct (suffix_check (compose_impl ds) sx) eqn:Ep; [|discriminate]. intros H; inversion H; subst tm'. now rewrite E, Ep.
      * destruct (tdef_eqb sx (compose_impl ds)) eqn:Ep; [|discriminate]. intros H; inversion H; subst tm'. now rewrite E, Ep.
Qed.

(* the leaf loop: from the store with top frame (m, t), no leaf position, flatten mode off *)
Section Loop.
Variables (sopt : option string) (t : alist tdef) (r : list (memo * alist tdef)).
Definition S (m : memo) : pstore := mkps ((m, t) :: r) None false.

Lemma loop_again lv : forall i m s',
  leaf_loop (leafmatch st (LArr a)) sopt lv i (S m) = (Acc, s') ->
  exists m', s' = S m' /\ mle m m' /\
             forall mx, mle m' mx -> leaf_loop (leafmatch st (LArr a)) sopt lv i (S mx) = (Acc, S mx).
Proof.
  induction lv as [|x lr IH]; intros i m s' H.
  - cbn in H. inversion H; subst. exists m. split; [reflexivity|]. split; [apply mle_refl | intros; reflexivity].
  - assert (Step : forall m0, leaf_loop (leafmatch st (LArr a)) sopt (x :: lr) i (S m0) =
              match arr_check st a (val_of x) (mkps ((m0, t) :: r) (match sopt with Some str => Some (label_of i str) | None => None end) false) with
              | (Acc, s'') => leaf_loop (leafmatch st (LArr a)) sopt lr (Datatypes.S i) (with_path s'' None)
              | (vd, s'') => (vd, s'')
              end).
    { intros m0. cbn [leaf_loop]. unfold S at 1. cbn [ps_path]. rewrite leafmatch_arr.
      destruct sopt; reflexivity. }
    rewrite Step in H. unfold arr_check in H. cbn [top_frame ps_stack ps_flat ps_path] in H.
    set (lbl := match sopt with Some str => Some (label_of i str) | None => None end) in *.
    destruct (instancecheck false lbl st a (val_of x) [m]) as [vd s1] eqn:E.
    destruct vd; try discriminate.
    destruct (instancecheck_acc_inv lbl st a (val_of x) m [] s1 Hwf E) as [m1 [-> [Hle1 Hag1]]].
    cbn [get_memo set_top ps_stack with_path ps_path ps_flat] in H. fold (S m1) in H.
    destruct (IH _ _ _ H) as [m' [-> [Hle' Hag']]].
    exists m'. split; [reflexivity|]. split; [eapply mle_trans; eauto|].
    intros mx Hx. rewrite Step. unfold arr_check. cbn [top_frame ps_stack ps_flat ps_path]. fold lbl.
    rewrite (Hag1 mx (mle_trans _ _ _ Hle' Hx)). cbn [get_memo set_top ps_stack with_path ps_path ps_flat]. fold (S mx).
    now apply Hag'.
Qed.
End Loop.

Theorem pytree_array_leaves_idempotent sopt x m t r s' :
  leafmatch st (LPyTree (LArr a) sopt) x (mkps ((m, t) :: r) None false) = (Acc, s') ->
  leafmatch st (LPyTree (LArr a) sopt) x s' = (Acc, s').
Proof.
  rewrite !leafmatch_pytree. intros H.
  assert (Main : pytree_body st (LArr a) sopt x (mkps ((m, t) :: r) None false) = (Acc, s') ->
                 pytree_body st (LArr a) sopt x s' = (Acc, s')).
  { clear H. unfold pytree_body. cbv zeta. unfold flat_fn, check_fn, with_flat. cbn [ps_stack ps_path ps_flat].
    assert (Fl : forall m2 t2, exists fl,
               flatten_with isl x (mkps ((m, t) :: r) None true) = (fl, mkps ((m, t) :: r) None true, None) /\
               flatten_with isl x (mkps ((m2, t2) :: r) None true) = (fl, mkps ((m2, t2) :: r) None true, None))
      by (intros; apply flatten_flat).
    unfold isl in Fl.
    destruct (Fl m t) as [fl [E1 _]]. rewrite E1.
    destruct fl as [[leaves sx]|]; [|discriminate].
    cbn [top_frame ps_stack fst].
    destruct (match sopt with None => StOk t | Some str => structure_step (read_structure str) sx t end) as [t'| |] eqn:Es; try discriminate.
    cbn [set_top ps_stack ps_path ps_flat].
    destruct (leaf_loop (leafmatch st (LArr a)) sopt leaves 0 (mkps ((m, t') :: r) None false)) as [vd s4] eqn:El.
    destruct vd; try discriminate. intros H; inversion H; subst. clear H.
    destruct (loop_again sopt t' r leaves 0 m s4 El) as [m' [-> [Hle Hag]]].
    unfold S. cbn [with_path ps_stack ps_path ps_flat].
    destruct (Fl m' t') as [fl2 [E1' E2']]. rewrite E1 in E1'. inversion E1'; subst fl2. rewrite E2'.
    cbn [top_frame ps_stack fst].
    assert (Es' : match sopt with None => StOk t' | Some str => structure_step (read_structure str) sx t' end = StOk t').
    { destruct sopt; [eapply structure_step_again; eauto | reflexivity]. }
    rewrite Es'. cbn [set_top ps_stack ps_path ps_flat].
    pose proof (Hag m' (mle_refl m')) as Hl. unfold S in Hl. rewrite Hl. reflexivity. }
  destruct x as [p|k cs]; [apply Main; exact H|].
  destruct k; try (apply Main; exact H). destruct cs; [inversion H; subst; reflexivity | apply Main; exact H].
Qed.

(* ---------- PyTree[Dtype[Array, dims]] decides like ONE walk over its array leaves (C08: "array-annotated leaves share
   axis bindings with one another and with the rest of the context") ---------- *)
Definition uses (lv : list ptree) : list (annot * value) := map (fun x => (a, val_of x)) lv.

(* the leaves: what the flatten phase yields (it does not depend on the bindings, flatten_flat) *)
Definition array_leaves (x : ptree) : list ptree :=
  match fst (fst (flatten_with isl x (mkps [] None true))) with Some (lv, _) => lv | None => [] end.

Lemma instancecheck_single f lbl v m : exists m1, snd (instancecheck f lbl st a v [m]) = [m1].
Proof.
  unfold instancecheck. destruct (a_skip a); [eexists; reflexivity|].
  destruct (negb (if a_any a then v_attrs v else v_inst v)); [eexists; reflexivity|].
  destruct f; [eexists; reflexivity|]. destruct (negb (dtype_ok a (v_dtype v))); [eexists; reflexivity|].
  destruct (check_shape lbl st (a_dims a) (v_shape v) (get_memo [m])) as [rr m']. destruct rr; eexists; reflexivity.
Qed.

Lemma loop_is_walk t r lv : forall i m,
  leaf_loop (leafmatch st (LArr a)) None lv i (S t r m) =
  (fst (walk None st (uses lv) [m]), S t r (get_memo (snd (walk None st (uses lv) [m])))).
Proof.
  induction lv as [|x lr IH]; intros i m; [reflexivity|].
  cbn [leaf_loop uses map walk]. unfold S at 1. cbn [ps_path]. rewrite leafmatch_arr. unfold arr_check.
  cbn [top_frame ps_stack ps_flat ps_path].
  destruct (instancecheck_single false None (val_of x) m) as [m1 E1].
  destruct (instancecheck false None st a (val_of x) [m]) as [vd s1]. cbn [snd] in E1. subst s1.
  cbn [get_memo set_top ps_stack ps_path ps_flat with_path].
  destruct vd; try reflexivity. fold (S t r m1). fold (uses lr). apply IH.
Qed.

Lemma uses_wf lv : Forall (fun u => wf_annot (fst u)) (uses lv).
Proof. induction lv; constructor; auto. Qed.

Theorem pytree_arrays_decide_like_one_walk x m t r vd s' :
  leafmatch st (LPyTree (LArr a) None) x (mkps ((m, t) :: r) None false) = (vd, s') ->
  (vd = Acc -> exists m', s' = mkps ((m', t) :: r) None false /\ margs m' = margs m /\
                          forall e, gamma m' e <-> gamma m e /\ Forall (full_sat None st (margs m) e) (uses (array_leaves x))) /\
  (vd = Rej -> s' = mkps ((m, t) :: r) None false /\
               forall e, gamma m e -> ~ Forall (full_sat None st (margs m) e) (uses (array_leaves x))).
Proof.
  rewrite leafmatch_pytree. intros H.
  assert (Fl : exists fl, flatten_with isl x (mkps ((m, t) :: r) None true) = (fl, mkps ((m, t) :: r) None true, None) /\
                          flatten_with isl x (mkps [] None true) = (fl, mkps [] None true, None)) by apply flatten_flat.
  destruct Fl as [fl [E1 E2]].
  assert (Main : pytree_body st (LArr a) None x (mkps ((m, t) :: r) None false) = (vd, s') ->
    (vd = Acc -> exists m', s' = mkps ((m', t) :: r) None false /\ margs m' = margs m /\
                            forall e, gamma m' e <-> gamma m e /\ Forall (full_sat None st (margs m) e) (uses (array_leaves x))) /\
    (vd = Rej -> s' = mkps ((m, t) :: r) None false /\
                 forall e, gamma m e -> ~ Forall (full_sat None st (margs m) e) (uses (array_leaves x)))).
  { clear H. unfold pytree_body. cbv zeta. unfold flat_fn, check_fn, with_flat. cbn [ps_stack ps_path ps_flat].
    unfold isl in E1. rewrite E1. unfold array_leaves. rewrite E2. cbn [fst].
    destruct fl as [[leaves sx]|].
    2:{ intros H; inversion H; subst. split; discriminate. }
    cbn [top_frame ps_stack fst set_top ps_path ps_flat].
    pose proof (loop_is_walk t r leaves 0 m) as Hl. unfold S in Hl. rewrite Hl. clear Hl.
    destruct (walk None st (uses leaves) [m]) as [vw sw] eqn:Ew. cbn [fst snd].
    destruct vw as [| |e].
    - intros H; inversion H; subst. split; [|discriminate]. intros _.
      destruct (walk_acc None st (uses leaves) m [] sw (uses_wf leaves) Ew) as [m' [-> [Ha Hg]]].
      exists m'. cbn [get_memo with_path ps_stack ps_path ps_flat]. auto.
    - intros H; inversion H; subst. split; [discriminate|]. intros _. split.
      + cbn [with_path set_top ps_stack ps_path ps_flat]. reflexivity.
      + eapply walk_rej; [apply uses_wf | exact Ew].
    - intros H; inversion H; subst. split; discriminate. }
  destruct x as [p|k cs]; [apply Main; exact H|].
  destruct k; try (apply Main; exact H). destruct cs; [|apply Main; exact H].
  (* top-level None: accepted, nothing bound; it has no leaves *)
  inversion H; subst. split; [|discriminate]. intros _. exists m. split; [reflexivity|]. split; [reflexivity|].
  intros e. unfold array_leaves. rewrite E2. rewrite flatten_with_eq in E2. unfold isl in E2. rewrite leafmatch_arr in E2.
  rewrite arr_check_flat in E2. unfold fv in E2. cbn [val_of not_array v_attrs v_inst] in E2.
  destruct (a_any a); cbn in E2; inversion E2; subst; cbn; split; [intros; split; auto | tauto | intros; split; auto | tauto].
Qed.
End Idem.

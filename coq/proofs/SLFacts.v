(* SLFacts.v -- the accessor functions of jaxtyping/_storage.py, AS REGENERATED FROM THE SOURCE (gen/StorageSrc.v), are exactly
   the stack / label / flag operations the models take them to be.  Every theorem is about `run_acc storage_src "<name>"`,
   i.e. about the interpreter of model/SL.v applied to the translated body; they hold for EVERY state of the thread's three
   cells (attribute missing, empty, any depth, any contents). *)
From JT Require Import model.SL gen.StorageSrc model.Threads.
From Coq Require Import Lia.
Open Scope string_scope.

Definition nonempty (s : tls) : bool := match t_stack s with Some (_ :: _) => true | _ => false end.
Definition empty_frame : sval := SVTuple [SVDict DEmpty; SVDict DEmpty; SVDict DEmpty; SVDict DEmpty].

(* ---------- _has_shape_memo / get / set / push / pop ---------- *)
Lemma has_shape_memo_spec s :
  run_acc storage_src "_has_shape_memo" [] s = Some (SRVal (SVBool (nonempty s)), s).
Proof. destruct s as [[[|x l]|] pa fl]; reflexivity. Qed.

Lemma last_app_one {A} (l : list A) (x d : A) : last (l ++ [x]) d = x.
Proof. induction l as [|a l IH]; cbn; [reflexivity|]. destruct (l ++ [x])%list eqn:E; [destruct l; discriminate|]. exact IH. Qed.

(* the top frame is the LAST element; a frame is whatever 4-tuple was stored (anything else cannot be unpacked) *)
Lemma get_shape_memo_general s r y :
  t_stack s = Some (r ++ [y])%list ->
  run_acc storage_src "get_shape_memo" [] s =
  Some (match y with SVTuple [a; b; c; d] => SRVal (SVTuple [a; b; c; d]) | _ => SRExn XOther end, s).
Proof.
  destruct s as [st pa fl]; cbn. intros H; subst st.
  destruct (r ++ [y])%list as [|x l] eqn:E; [destruct r; discriminate|].
  assert (L : last (x :: l) SVNone = y) by (rewrite <- E; apply last_app_one).
  unfold run_acc, run_fun. cbn -[last]. rewrite L.
  destruct y as [| | | | |[|a [|b [|c [|d [|e t]]]]]| |]; reflexivity.
Qed.

Lemma get_shape_memo_top s r a b c d :
  t_stack s = Some (r ++ [SVTuple [a; b; c; d]])%list ->
  run_acc storage_src "get_shape_memo" [] s = Some (SRVal (SVTuple [a; b; c; d]), s).
Proof. intros H. rewrite (get_shape_memo_general s r _ H). reflexivity. Qed.

Lemma get_shape_memo_outside s :
  nonempty s = false ->
  run_acc storage_src "get_shape_memo" [] s = Some (SRVal empty_frame, s).
Proof. destruct s as [[[|x l]|] pa fl]; cbn; intros H; try discriminate; reflexivity. Qed.

Lemma set_shape_memo_spec s a b c d :
  run_acc storage_src "set_shape_memo" [a; b; c; d] s =
  Some (SRVal SVNone, match t_stack s with
                      | Some (x :: l) => with_stack s (Some (set_last (x :: l) (SVTuple [a; b; c; d])))
                      | _ => s
                      end).
Proof. destruct s as [[[|x l]|] pa fl]; reflexivity. Qed.

Definition new_frame (args : dict) : sval := SVTuple [SVDict DEmpty; SVDict DEmpty; SVDict DEmpty; SVDict args].

Lemma push_shape_memo_spec s args :
  run_acc storage_src "push_shape_memo" [SVDict args] s =
  Some (SRVal (new_frame args), with_stack s (Some (stack_or_nil s ++ [new_frame args])%list)).
Proof. destruct s as [[l|] pa fl]; reflexivity. Qed.

Lemma pop_shape_memo_spec s :
  run_acc storage_src "pop_shape_memo" [] s =
  Some (match t_stack s with
        | None => (SRExn XAttribute, s)
        | Some [] => (SRExn XIndex, s)
        | Some l => (SRVal SVNone, with_stack s (Some (removelast l)))
        end).
Proof. destruct s as [[[|x l]|] pa fl]; reflexivity. Qed.

(* ---------- the '?'-leaf position ---------- *)
Definition path_set (s : tls) : bool := match t_path s with Some SVNone | None => false | Some _ => true end.
Definition with_pathv (s : tls) (v : sval) : tls := mktls (t_stack s) (Some v) (t_flat s).
Definition with_flatv (s : tls) (v : sval) : tls := mktls (t_stack s) (t_path s) (Some v).

Lemma clear_treepath_memo_spec s :
  run_acc storage_src "clear_treepath_memo" [] s = Some (SRVal SVNone, with_pathv s SVNone).
Proof. reflexivity. Qed.

Lemma sapp_assoc (a b c : string) : ((a ++ b) ++ c = a ++ (b ++ c))%string.
Proof. induction a as [|x a IH]; cbn; [reflexivity|]. rewrite IH. reflexivity. Qed.

Lemma set_treepath_memo_leaf s (i : Z) (structure : string) :
  run_acc storage_src "set_treepath_memo" [SVInt i; SVStr structure] s =
  Some (if path_set s then (SRExn XAnnotation, s)
        else (SRVal SVNone, with_pathv s (SVStr ("(Leaf " ++ zs i ++ " in structure " ++ structure ++ ") ")))).
Proof.
  destruct s as [st [[]|] fl]; unfold run_acc, run_fun; cbn; try reflexivity;
    unfold with_pathv; cbn; rewrite !sapp_assoc; reflexivity.
Qed.

Lemma set_treepath_memo_noindex s (structure : string) :
  run_acc storage_src "set_treepath_memo" [SVNone; SVStr structure] s =
  Some (if path_set s then (SRExn XAnnotation, s)
        else (SRVal SVNone, with_pathv s (SVStr ("~~delete~~(" ++ structure ++ ") ")))).
Proof.
  destruct s as [st [[]|] fl]; unfold run_acc, run_fun; cbn; try reflexivity;
    unfold with_pathv; cbn; rewrite ?sapp_assoc; reflexivity.
Qed.

Lemma get_treepath_memo_spec s :
  run_acc storage_src "get_treepath_memo" [] s =
  Some (match t_path s with
        | None | Some SVNone => (SRExn XAnnotation, s)
        | Some v => (SRVal v, s)
        end).
Proof. destruct s as [st [[]|] fl]; reflexivity. Qed.

(* ---------- the flatten mode ---------- *)
Lemma clear_treeflatten_memo_spec s :
  run_acc storage_src "clear_treeflatten_memo" [] s = Some (SRVal SVNone, with_flatv s (SVBool false)).
Proof. reflexivity. Qed.

Lemma set_treeflatten_memo_spec s :
  run_acc storage_src "set_treeflatten_memo" [] s = Some (SRVal SVNone, with_flatv s (SVBool true)).
Proof. reflexivity. Qed.

Lemma get_treeflatten_memo_spec s :
  run_acc storage_src "get_treeflatten_memo" [] s =
  Some (match t_flat s with Some v => SRVal v | None => SRVal (SVBool false) end, s).
Proof. destruct s as [st pa [v|]]; reflexivity. Qed.

(* ---------- the same statements through the abstraction to model/PyTreeCheck.v's store ---------- *)
Lemma rev_map_app_one (l : list sval) (x : sval) :
  rev (map dec_frame (l ++ [x])) = dec_frame x :: rev (map dec_frame l).
Proof. rewrite map_app, rev_app_distr. reflexivity. Qed.

(* push_shape_memo(arguments) is push_memo: a fresh frame with no bindings and the call's arguments, on top *)
Theorem push_refines s args s' v :
  run_acc storage_src "push_shape_memo" [SVDict args] s = Some (SRVal v, s') ->
  ps_stack (abs_store s') = (mkmemo [] [] (dA args), []) :: ps_stack (abs_store s) /\
  ps_path (abs_store s') = ps_path (abs_store s) /\ ps_flat (abs_store s') = ps_flat (abs_store s) /\
  dec_frame v = (mkmemo [] [] (dA args), []).
Proof.
  rewrite push_shape_memo_spec. intros H. injection H as Hv Hs. subst v s'.
  unfold abs_store; cbn. unfold stack_or_nil at 1; cbn. rewrite rev_map_app_one. cbn. repeat split; reflexivity.
Qed.

Lemma rev_removelast {A} (l : list A) : rev (removelast l) = tl (rev l).
Proof.
  destruct l as [|x l]; [reflexivity|].
  assert (H : x :: l <> []) by discriminate.
  rewrite (app_removelast_last x H) at 2. rewrite rev_app_distr. reflexivity.
Qed.

Lemma map_removelast {A B} (f : A -> B) (l : list A) : map f (removelast l) = removelast (map f l).
Proof. induction l as [|x [|y l] IH]; [reflexivity | reflexivity |]. change (removelast (x :: y :: l)) with (x :: removelast (y :: l)).
  cbn [map]. rewrite IH. reflexivity. Qed.

Lemma abs_stack_pop x l pa fl :
  ps_stack (abs_store (mktls (Some (removelast (x :: l))) pa fl)) = tl (ps_stack (abs_store (mktls (Some (x :: l)) pa fl))).
Proof. unfold abs_store, stack_or_nil; cbn [t_stack ps_stack]. rewrite map_removelast. apply rev_removelast. Qed.

Lemma abs_stack_nonempty x l pa fl : ps_stack (abs_store (mktls (Some (x :: l)) pa fl)) <> [].
Proof. unfold abs_store, stack_or_nil; cbn [t_stack ps_stack]. intros F. apply (f_equal (@length _)) in F.
  rewrite rev_length, map_length in F. discriminate. Qed.

(* pop_shape_memo() removes the top frame -- and RAISES when there is none (model/Check.v's pop_memo is `tl`, total: the
   models only ever pop what they pushed; see proofs/ProgFacts.v for that bracket discipline) *)
Theorem pop_refines s r s' :
  run_acc storage_src "pop_shape_memo" [] s = Some (r, s') ->
  match ps_stack (abs_store s) with
  | [] => (r = SRExn XAttribute \/ r = SRExn XIndex) /\ s' = s
  | _ :: rest => r = SRVal SVNone /\ ps_stack (abs_store s') = rest /\
                 ps_path (abs_store s') = ps_path (abs_store s) /\ ps_flat (abs_store s') = ps_flat (abs_store s)
  end.
Proof.
  rewrite pop_shape_memo_spec. destruct s as [[[|x l]|] pa fl].
  - cbn. intros H; injection H as Hr Hs; subst r s'. split; [right|]; reflexivity.
  - cbn [t_stack with_stack t_path t_flat]. intros H; injection H as Hr Hs; subst r s'.
    pose proof (abs_stack_pop x l pa fl) as P. pose proof (abs_stack_nonempty x l pa fl) as N.
    destruct (ps_stack (abs_store (mktls (Some (x :: l)) pa fl))) as [|f rest]; [contradiction|].
    split; [reflexivity|]. split; [exact P|]. split; reflexivity.
  - cbn. intros H; injection H as Hr Hs; subst r s'. split; [left|]; reflexivity.
Qed.

(* get_shape_memo() returns the top frame, or four fresh empty dicts outside every context; it never changes the store *)
Theorem get_refines s v s' :
  run_acc storage_src "get_shape_memo" [] s = Some (SRVal v, s') ->
  s' = s /\ dec_frame v = top_frame (abs_store s).
Proof.
  destruct (nonempty s) eqn:N.
  - destruct s as [[[|x l]|] pa fl]; try discriminate.
    destruct (@exists_last _ (x :: l)) as [r [y E]]; [discriminate|].
    rewrite (get_shape_memo_general _ r y); [|cbn; rewrite E; reflexivity].
    intros H. assert (Hs : s' = mktls (Some (x :: l)) pa fl) by (injection H; auto). subst s'. split; [reflexivity|].
    unfold abs_store, top_frame; cbn [t_stack stack_or_nil ps_stack]. rewrite E, rev_map_app_one.
    destruct y as [| | | | |[|a [|b [|c [|d [|e t]]]]]| |]; try discriminate. injection H as <-. reflexivity.
  - rewrite (get_shape_memo_outside s N). intros H; injection H as Hv Hs; subst v s'. split; [reflexivity|].
    destruct s as [[[|x l]|] pa fl]; try discriminate; reflexivity.
Qed.

(* set_shape_memo(a, b, c, d) replaces the top frame and is a no-op outside every context *)
Theorem set_refines s a b c d r s' :
  run_acc storage_src "set_shape_memo" [a; b; c; d] s = Some (r, s') ->
  r = SRVal SVNone /\ abs_store s' = set_top (abs_store s) (dec_frame (SVTuple [a; b; c; d])).
Proof.
  rewrite set_shape_memo_spec. intros H; injection H as Hr Hs; subst r s'. split; [reflexivity|].
  destruct s as [[[|x l]|] pa fl]; try reflexivity.
  pose proof (abs_stack_pop x l pa fl) as P. pose proof (abs_stack_nonempty x l pa fl) as N.
  unfold set_top. destruct (ps_stack (abs_store (mktls (Some (x :: l)) pa fl))) as [|f rest] eqn:F; [contradiction|].
  unfold abs_store in *; cbn [t_stack with_stack stack_or_nil t_path t_flat ps_stack ps_path ps_flat] in *.
  unfold set_last. rewrite rev_map_app_one, P. reflexivity.
Qed.

(* ---------- the label and the flag, on well-typed cells ---------- *)
Definition wf_cells (s : tls) : Prop :=
  (t_path s = None \/ t_path s = Some SVNone \/ exists p, t_path s = Some (SVStr p)) /\
  (t_flat s = None \/ exists b, t_flat s = Some (SVBool b)).

Lemma wf_initial : wf_cells (mktls None None None).
Proof. split; left; reflexivity. Qed.

Lemma path_set_abs s : wf_cells s -> path_set s = match ps_path (abs_store s) with Some _ => true | None => false end.
Proof. intros [[H|[H|[p H]]] _]; unfold path_set, abs_store; cbn; rewrite H; reflexivity. Qed.

Theorem set_treepath_refines s (i : nat) structure r s' :
  wf_cells s ->
  run_acc storage_src "set_treepath_memo" [SVInt (Z.of_nat i); SVStr structure] s = Some (r, s') ->
  match ps_path (abs_store s) with
  | Some _ => r = SRExn XAnnotation /\ s' = s                       (* already inside a structured PyTree: ambiguous *)
  | None => r = SRVal SVNone /\ abs_store s' = with_path (abs_store s) (Some (label_of i structure)) /\ wf_cells s'
  end.
Proof.
  intros W. rewrite set_treepath_memo_leaf, (path_set_abs s W).
  destruct (ps_path (abs_store s)); intros H; injection H as Hr Hs; subst r s'.
  - split; reflexivity.
  - split; [reflexivity|]. split; [reflexivity|]. destruct W as [_ W2]. split; [right; right; eexists; reflexivity | exact W2].
Qed.

Theorem clear_treepath_refines s r s' :
  wf_cells s ->
  run_acc storage_src "clear_treepath_memo" [] s = Some (r, s') ->
  r = SRVal SVNone /\ abs_store s' = with_path (abs_store s) None /\ wf_cells s'.
Proof.
  intros [_ W2]. rewrite clear_treepath_memo_spec. intros H; injection H as Hr Hs; subst r s'.
  split; [reflexivity|]. split; [reflexivity|]. split; [right; left; reflexivity | exact W2].
Qed.

Theorem get_treepath_refines s r s' :
  wf_cells s ->
  run_acc storage_src "get_treepath_memo" [] s = Some (r, s') ->
  s' = s /\ r = match ps_path (abs_store s) with Some p => SRVal (SVStr p) | None => SRExn XAnnotation end.
Proof.
  intros [[H|[H|[p H]]] _]; rewrite get_treepath_memo_spec; unfold abs_store; cbn; rewrite H;
    intros E; injection E as Hr Hs; subst r s'; split; reflexivity.
Qed.

Theorem set_treeflatten_refines s (b : bool) r s' :
  wf_cells s ->
  run_acc storage_src (if b then "set_treeflatten_memo" else "clear_treeflatten_memo") [] s = Some (r, s') ->
  r = SRVal SVNone /\ abs_store s' = with_flat (abs_store s) b /\ wf_cells s'.
Proof.
  intros [W1 _]. destruct b; [rewrite set_treeflatten_memo_spec | rewrite clear_treeflatten_memo_spec];
    intros H; injection H as Hr Hs; subst r s'; (split; [reflexivity|]); (split; [reflexivity|]);
    (split; [exact W1 | right; eexists; reflexivity]).
Qed.

Theorem get_treeflatten_refines s r s' :
  wf_cells s ->
  run_acc storage_src "get_treeflatten_memo" [] s = Some (r, s') ->
  s' = s /\ r = SRVal (SVBool (ps_flat (abs_store s))).
Proof.
  intros [_ [H|[b H]]]; rewrite get_treeflatten_memo_spec; unfold abs_store; cbn; rewrite H;
    intros E; injection E as Hr Hs; subst r s'; split; reflexivity.
Qed.

(* the stack accessors never touch the label or the flag, so they preserve well-typedness of the cells *)
Lemma get_keeps_store s r s' : run_acc storage_src "get_shape_memo" [] s = Some (r, s') -> s' = s.
Proof.
  destruct (nonempty s) eqn:N.
  - destruct s as [[[|x l]|] pa fl]; try discriminate.
    destruct (@exists_last _ (x :: l)) as [r0 [y E]]; [discriminate|].
    rewrite (get_shape_memo_general _ r0 y); [|cbn; rewrite E; reflexivity]. intros H; injection H; auto.
  - rewrite (get_shape_memo_outside s N). intros H; injection H; auto.
Qed.

Lemma stack_accessors_keep_cells s f r s' :
  In f ["_has_shape_memo"; "get_shape_memo"; "pop_shape_memo"] ->
  run_acc storage_src f [] s = Some (r, s') -> t_path s' = t_path s /\ t_flat s' = t_flat s.
Proof.
  intros Hin H. cbn in Hin. destruct Hin as [<-|[<-|[<-|[]]]].
  - rewrite has_shape_memo_spec in H. injection H as _ <-. split; reflexivity.
  - apply get_keeps_store in H. subst s'. split; reflexivity.
  - rewrite pop_shape_memo_spec in H. destruct s as [[[|y l]|] pa fl]; cbn [t_stack] in H; injection H as _ <-; split; reflexivity.
Qed.

(* ---------- model/Threads.v: its atomic storage steps ARE the source's accessors ---------- *)
(* which accessor call realises a storage step of the thread model *)
Definition acc_of_step (o : tstep) : option (string * list sval) :=
  match o with
  | TPush => Some ("push_shape_memo", [SVDict DEmpty])
  | TPop => Some ("pop_shape_memo", [])
  | TSetFlat true => Some ("set_treeflatten_memo", [])
  | TSetFlat false => Some ("clear_treeflatten_memo", [])
  | TSetPath None => Some ("clear_treepath_memo", [])
  | _ => None
  end.

Theorem thread_model_storage_steps_are_the_source st o f args s :
  wf_cells s ->
  acc_of_step o = Some (f, args) ->
  (o = TPop -> ps_stack (abs_store s) <> []) ->
  exists r s', run_acc storage_src f args s = Some (r, s') /\ r <> SRExn XOther /\
               abs_store s' = fst (step_view st o (abs_store s)) /\ wf_cells s'.
Proof.
  intros W E Hpop. destruct o as [| |[|]|[p|]|a v|]; cbn in E; try discriminate; injection E as <- <-.
  - (* push *)
    eexists _, _. split; [apply push_shape_memo_spec|]. split; [discriminate|]. split.
    + destruct (push_refines s DEmpty _ _ (push_shape_memo_spec s DEmpty)) as [H1 [H2 [H3 _]]].
      cbn [step_view fst]. destruct (abs_store (with_stack s _)) as [a b c] eqn:A. cbn in H1, H2, H3. subst a b c. reflexivity.
    + destruct W as [W1 W2]. split; assumption.
  - (* pop *)
    specialize (Hpop eq_refl).
    destruct (run_acc storage_src "pop_shape_memo" [] s) as [[r s']|] eqn:R; [|rewrite pop_shape_memo_spec in R; discriminate].
    pose proof (pop_refines s r s' R) as P. destruct (ps_stack (abs_store s)) as [|f0 rest] eqn:S; [contradiction|].
    destruct P as [-> [P1 [P2 P3]]]. exists (SRVal SVNone), s'. split; [reflexivity|]. split; [discriminate|]. split.
    + cbn [step_view fst]. rewrite S. cbn [tl]. destruct (abs_store s') as [a b c]. cbn in P1, P2, P3. subst a b c. reflexivity.
    + pose proof (stack_accessors_keep_cells s "pop_shape_memo" _ _ (or_intror (or_intror (or_introl eq_refl))) R) as [K1 K2].
      destruct W as [W1 W2]. unfold wf_cells. rewrite K1, K2. split; assumption.
  - destruct (set_treeflatten_refines s true _ _ W (set_treeflatten_memo_spec s)) as [_ [H1 H2]].
    eexists _, _. split; [apply set_treeflatten_memo_spec|]. split; [discriminate|]. split; [exact H1 | exact H2].
  - destruct (set_treeflatten_refines s false _ _ W (clear_treeflatten_memo_spec s)) as [_ [H1 H2]].
    eexists _, _. split; [apply clear_treeflatten_memo_spec|]. split; [discriminate|]. split; [exact H1 | exact H2].
  - destruct (clear_treepath_refines s _ _ W (clear_treepath_memo_spec s)) as [_ [H1 H2]].
    eexists _, _. split; [apply clear_treepath_memo_spec|]. split; [discriminate|]. split; [exact H1 | exact H2].
Qed.

(* ---------- model/Check.v and model/Prog.v: the context stack of the array model ---------- *)
Definition abs_stack (s : tls) : stack := map fst (ps_stack (abs_store s)).

Theorem context_stack_ops_are_the_source s :
  (* push_shape_memo(arguments) = push_memo *)
  (forall args r s', run_acc storage_src "push_shape_memo" [SVDict args] s = Some (r, s') ->
     abs_stack s' = push_memo (abs_stack s) (dA args)) /\
  (* pop_shape_memo() = pop_memo, and an exception when nothing was pushed *)
  (forall r s', run_acc storage_src "pop_shape_memo" [] s = Some (r, s') ->
     match abs_stack s with [] => r <> SRVal SVNone /\ s' = s | _ => r = SRVal SVNone /\ abs_stack s' = pop_memo (abs_stack s) end) /\
  (* get_shape_memo() = get_memo, with no effect *)
  (forall v s', run_acc storage_src "get_shape_memo" [] s = Some (SRVal v, s') ->
     s' = s /\ fst (dec_frame v) = get_memo (abs_stack s)) /\
  (* set_shape_memo(..) = set_memo *)
  (forall a b c d r s', run_acc storage_src "set_shape_memo" [a; b; c; d] s = Some (r, s') ->
     abs_stack s' = set_memo (abs_stack s) (fst (dec_frame (SVTuple [a; b; c; d])))).
Proof.
  unfold abs_stack. repeat split.
  - intros args r s' H. rewrite push_shape_memo_spec in H. injection H as _ <-.
    destruct (push_refines s args _ _ (push_shape_memo_spec s args)) as [H1 _]. rewrite H1. reflexivity.
  - intros r s' H. apply pop_refines in H. destruct (ps_stack (abs_store s)) as [|f rest]; cbn [map].
    + destruct H as [[->| ->] ->]; split; try discriminate; reflexivity.
    + destruct H as [-> [H _]]. rewrite H. split; reflexivity.
  - apply get_refines in H. tauto.
  - apply get_refines in H. destruct H as [_ H]. rewrite H. unfold top_frame, get_memo.
    destruct (ps_stack (abs_store s)) as [|f rest]; reflexivity.
  - intros a b c d r s' H. apply set_refines in H. destruct H as [_ H]. rewrite H. unfold set_top, set_memo.
    destruct (ps_stack (abs_store s)) as [|f rest] eqn:E; [rewrite E|]; reflexivity.
Qed.

(* ---------- the context manager behind `with jaxtyped("context"):` (jaxtyping/_decorator.py:_JaxtypingContext) ---------- *)
Lemma context_enter_spec self s :
  run_acc context_src "__enter__" [self] s =
  Some (SRVal SVNone, with_stack s (Some (stack_or_nil s ++ [new_frame DEmpty])%list)).
Proof. destruct s as [[l|] pa fl]; reflexivity. Qed.

Lemma context_exit_spec self e1 e2 e3 s :
  run_acc context_src "__exit__" [self; e1; e2; e3] s =
  Some (match t_stack s with
        | None => (SRExn XAttribute, s)
        | Some [] => (SRExn XIndex, s)
        | Some l => (SRVal SVNone, with_stack s (Some (removelast l)))
        end).
Proof. destruct s as [[[|x l]|] pa fl]; reflexivity. Qed.

(* the object carries no state: what __enter__ / __exit__ do never depends on WHICH context object they are called on (nor on
   the exception being propagated), so one object may be shared, re-entered while entered, or used by several threads *)
Theorem context_object_is_stateless self self' e1 e2 e3 e1' e2' e3' s :
  run_acc context_src "__enter__" [self] s = run_acc context_src "__enter__" [self'] s /\
  run_acc context_src "__exit__" [self; e1; e2; e3] s = run_acc context_src "__exit__" [self'; e1'; e2'; e3'] s /\
  context_call_returns_new_object = true.
Proof. rewrite !context_enter_spec, !context_exit_spec. repeat split. Qed.

(* __enter__ is push_memo with no arguments; __exit__ is pop_memo (whatever the exception arguments are) *)
Theorem context_enter_is_push self s r s' :
  run_acc context_src "__enter__" [self] s = Some (r, s') ->
  r = SRVal SVNone /\ abs_stack s' = push_memo (abs_stack s) [] /\
  ps_stack (abs_store s') = (empty_memo, []) :: ps_stack (abs_store s) /\
  ps_path (abs_store s') = ps_path (abs_store s) /\ ps_flat (abs_store s') = ps_flat (abs_store s).
Proof.
  rewrite context_enter_spec. intros H; injection H as <- <-.
  destruct (push_refines s DEmpty _ _ (push_shape_memo_spec s DEmpty)) as [H1 [H2 [H3 _]]].
  unfold abs_stack. rewrite H1. repeat split; assumption.
Qed.

Theorem context_exit_is_pop self e1 e2 e3 s r s' :
  run_acc context_src "__exit__" [self; e1; e2; e3] s = Some (r, s') ->
  match abs_stack s with
  | [] => r <> SRVal SVNone /\ s' = s
  | _ => r = SRVal SVNone /\ abs_stack s' = pop_memo (abs_stack s) /\
         ps_path (abs_store s') = ps_path (abs_store s) /\ ps_flat (abs_store s') = ps_flat (abs_store s)
  end.
Proof.
  rewrite context_exit_spec, <- pop_shape_memo_spec. intros H. apply pop_refines in H. unfold abs_stack.
  destruct (ps_stack (abs_store s)) as [|f rest]; cbn [map].
  - destruct H as [[->| ->] ->]; split; try discriminate; reflexivity.
  - destruct H as [-> [H [P F]]]. rewrite H. repeat split; assumption.
Qed.

(* n nested entries (of one object or of different ones) followed by n exits give back the store the block was entered with:
   same frames, same label, same flag -- at every depth and for every starting state *)
Fixpoint enter_n (n : nat) (s : tls) : tls :=
  match n with
  | O => s
  | S k => match run_acc context_src "__enter__" [SVNone] s with Some (_, s') => enter_n k s' | None => s end
  end.
Fixpoint exit_n (n : nat) (s : tls) : tls :=
  match n with
  | O => s
  | S k => match run_acc context_src "__exit__" [SVNone; SVNone; SVNone; SVNone] s with Some (_, s') => exit_n k s' | None => s end
  end.

Lemma removelast_app_one {A} (l : list A) (x : A) : removelast (l ++ [x]) = l.
Proof. apply removelast_last. Qed.

Lemma enter_n_stack n s : t_stack (enter_n n s) = match n with O => t_stack s | _ => Some (stack_or_nil s ++ repeat (new_frame DEmpty) n)%list end
                           /\ t_path (enter_n n s) = t_path s /\ t_flat (enter_n n s) = t_flat s.
Proof.
  revert s. induction n as [|n IH]; intros s; [repeat split|].
  cbn [enter_n]. rewrite context_enter_spec. destruct (IH (with_stack s (Some (stack_or_nil s ++ [new_frame DEmpty])%list))) as [I1 [I2 I3]].
  rewrite I1, I2, I3. split; [|split; reflexivity].
  destruct n as [|n]; cbn [with_stack t_stack stack_or_nil repeat]; [reflexivity|].
  rewrite <- app_assoc. reflexivity.
Qed.

Lemma exit_n_stack n l s :
  t_stack s = Some (l ++ repeat (new_frame DEmpty) n)%list ->
  t_stack (exit_n n s) = Some l /\ t_path (exit_n n s) = t_path s /\ t_flat (exit_n n s) = t_flat s.
Proof.
  revert s. induction n as [|n IH]; intros s H.
  - cbn in H. rewrite app_nil_r in H. repeat split; assumption.
  - cbn [exit_n]. rewrite context_exit_spec, H.
    assert (E : (l ++ repeat (new_frame DEmpty) (S n) = (l ++ repeat (new_frame DEmpty) n) ++ [new_frame DEmpty])%list).
    { rewrite <- app_assoc. f_equal. clear. induction n as [|n IH]; [reflexivity|]. cbn [repeat]. cbn. f_equal. exact IH. }
    rewrite E. destruct ((l ++ repeat (new_frame DEmpty) n) ++ [new_frame DEmpty])%list as [|y t] eqn:F.
    { destruct (l ++ repeat (new_frame DEmpty) n)%list; discriminate. }
    rewrite <- F, removelast_app_one.
    destruct (IH (with_stack s (Some (l ++ repeat (new_frame DEmpty) n)%list)) eq_refl) as [I1 [I2 I3]].
    rewrite I1, I2, I3. repeat split.
Qed.

Theorem nested_context_blocks_restore n s :
  abs_store (exit_n n (enter_n n s)) = abs_store s.
Proof.
  destruct n as [|n]; [reflexivity|].
  destruct (enter_n_stack (S n) s) as [E1 [E2 E3]].
  destruct (exit_n_stack (S n) (stack_or_nil s) (enter_n (S n) s) E1) as [X1 [X2 X3]].
  unfold abs_store, stack_or_nil at 1. rewrite X1, X2, X3, E2, E3. reflexivity.
Qed.

(* ---------- the snapshot / roll-back wrappers (tail of _MetaAbstractArray.__instancecheck_str__ and of
   _MetaPyTree.__instancecheck__), as regenerated from the source; the code they wrap (cls._check_shape, cls._check) is ANY
   function `ext` of its arguments and the store ---------- *)
Definition restore_top (s1 : tls) (fr : sval) : tls :=
  match t_stack s1 with Some (x :: l) => with_stack s1 (Some (set_last (x :: l) fr)) | _ => s1 end.

Definition tail_result (ok : sval -> option bool) (r : slres) (s1 : tls) (fr : sval) : slres * tls :=
  match r with
  | SRExn x => (SRExn x, restore_top s1 fr)
  | SRVal v => match ok v with
               | Some true => (SRVal v, s1)
               | Some false => (SRVal v, restore_top s1 fr)
               | None => (SRExn XOther, s1)
               end
  end.

Definition array_ok (v : sval) : option bool := match v with SVStr m => Some (String.eqb m "") | _ => None end.
Definition pytree_ok (v : sval) : option bool := match v with SVBool b => Some b | _ => None end.
Definition pytree_ret (r : slres * tls) : slres * tls :=
  match r with (SRVal (SVBool b), s) => (SRVal (SVBool b), s) | x => x end.

Lemma array_tail_in_context ext cls obj s r0 a b c d :
  t_stack s = Some (r0 ++ [SVTuple [SVDict a; SVDict b; SVDict c; SVDict d]])%list ->
  run_ext ext rollback_src "array_tail" [cls; obj] s =
  Some (let '(r, s1) := ext "_check_shape" [obj; SVDict a; SVDict b; SVDict d] s in
        tail_result array_ok r s1 (SVTuple [SVDict a; SVDict b; SVDict c; SVDict d])).
Proof.
  destruct s as [st pa fl]; cbn [t_stack]. intros H; subst st.
  destruct (r0 ++ [SVTuple [SVDict a; SVDict b; SVDict c; SVDict d]])%list as [|x l] eqn:E; [destruct r0; discriminate|].
  assert (L : last (x :: l) SVNone = SVTuple [SVDict a; SVDict b; SVDict c; SVDict d]) by (rewrite <- E; apply last_app_one).
  unfold run_ext, run_fun. cbn -[last]. rewrite L. cbn -[last].
  destruct (ext "_check_shape" [obj; SVDict a; SVDict b; SVDict d] {| t_stack := Some (x :: l); t_path := pa; t_flat := fl |}) as [[v|x'] s1].
  - destruct v as [| |m| | | | |]; try (cbn; reflexivity).
    cbn -[last]. destruct (String.eqb m "") eqn:M; cbn -[last].
    + reflexivity.
    + destruct s1 as [[[|y t]|] pa1 fl1]; reflexivity.
  - destruct s1 as [[[|y t]|] pa1 fl1]; reflexivity.
Qed.

Lemma array_tail_outside ext cls obj s :
  nonempty s = false ->
  run_ext ext rollback_src "array_tail" [cls; obj] s =
  Some (let '(r, s1) := ext "_check_shape" [obj; SVDict DEmpty; SVDict DEmpty; SVDict DEmpty] s in
        tail_result array_ok r s1 empty_frame).
Proof.
  intros N. assert (E : exists pa fl, s = mktls None pa fl \/ s = mktls (Some []) pa fl).
  { destruct s as [[[|x l]|] pa fl]; try discriminate; eauto. }
  destruct E as [pa [fl [-> | ->]]]; unfold run_ext, run_fun; cbn;
    match goal with |- context [ext ?f ?a ?st] => destruct (ext f a st) as [[v|x'] s1] end;
    try (destruct s1 as [[[|y t]|] pa1 fl1]; reflexivity);
    (destruct v as [| |m| | | | |]; try (cbn; reflexivity);
     cbn; destruct (String.eqb m "") eqn:M; cbn; [reflexivity | destruct s1 as [[[|y t]|] pa1 fl1]; reflexivity]).
Qed.

Lemma pytree_tail_in_context ext cls obj s r0 a b c d :
  t_stack s = Some (r0 ++ [SVTuple [SVDict a; SVDict b; SVDict c; SVDict d]])%list ->
  run_ext ext rollback_src "pytree_tail" [cls; obj] s =
  Some (let '(r, s1) := ext "_check" [obj; SVDict c] s in
        tail_result pytree_ok r s1 (SVTuple [SVDict a; SVDict b; SVDict c; SVDict d])).
Proof.
  destruct s as [st pa fl]; cbn [t_stack]. intros H; subst st.
  destruct (r0 ++ [SVTuple [SVDict a; SVDict b; SVDict c; SVDict d]])%list as [|x l] eqn:E; [destruct r0; discriminate|].
  assert (L : last (x :: l) SVNone = SVTuple [SVDict a; SVDict b; SVDict c; SVDict d]) by (rewrite <- E; apply last_app_one).
  unfold run_ext, run_fun. cbn -[last]. rewrite L. cbn -[last].
  destruct (ext "_check" [obj; SVDict c] {| t_stack := Some (x :: l); t_path := pa; t_flat := fl |}) as [[v|x'] s1].
  - destruct v as [|[|]| | | | | |]; try (cbn; reflexivity).
    cbn -[last]. destruct s1 as [[[|y t]|] pa1 fl1]; reflexivity.
  - destruct s1 as [[[|y t]|] pa1 fl1]; reflexivity.
Qed.

Lemma pytree_tail_outside ext cls obj s :
  nonempty s = false ->
  run_ext ext rollback_src "pytree_tail" [cls; obj] s =
  Some (let '(r, s1) := ext "_check" [obj; SVDict DEmpty] s in tail_result pytree_ok r s1 empty_frame).
Proof.
  intros N. assert (E : exists pa fl, s = mktls None pa fl \/ s = mktls (Some []) pa fl).
  { destruct s as [[[|x l]|] pa fl]; try discriminate; eauto. }
  destruct E as [pa [fl [-> | ->]]]; unfold run_ext, run_fun; cbn;
    match goal with |- context [ext ?f ?a ?st] => destruct (ext f a st) as [[v|x'] s1] end;
    try (destruct s1 as [[[|y t]|] pa1 fl1]; reflexivity);
    (destruct v as [|[|]| | | | | |]; try (cbn; reflexivity); cbn; destruct s1 as [[[|y t]|] pa1 fl1]; reflexivity).
Qed.

(* restoring the snapshot is set_top with the frame the check started from *)
Lemma restore_top_abs s1 fr : abs_store (restore_top s1 fr) = set_top (abs_store s1) (dec_frame fr).
Proof.
  unfold restore_top. destruct s1 as [[[|x l]|] pa fl]; try reflexivity.
  pose proof (abs_stack_pop x l pa fl) as P. pose proof (abs_stack_nonempty x l pa fl) as N.
  unfold set_top. destruct (ps_stack (abs_store (mktls (Some (x :: l)) pa fl))) as [|f rest] eqn:F; [contradiction|].
  unfold abs_store in *; cbn [t_stack with_stack stack_or_nil t_path t_flat ps_stack ps_path ps_flat] in *.
  unfold set_last. rewrite rev_map_app_one, P. reflexivity.
Qed.

(* the thread is either outside every context or its top frame is a tuple of four dictionaries *)
Definition wf_top (s : tls) : Prop :=
  nonempty s = false \/ exists r0 a b c d, t_stack s = Some (r0 ++ [SVTuple [SVDict a; SVDict b; SVDict c; SVDict d]])%list.

Lemma top_frame_of_last s r0 fr : t_stack s = Some (r0 ++ [fr])%list -> top_frame (abs_store s) = dec_frame fr.
Proof. intros H. unfold abs_store, top_frame, stack_or_nil; cbn [ps_stack]. rewrite H, rev_map_app_one. reflexivity. Qed.

Lemma top_frame_outside s : nonempty s = false -> top_frame (abs_store s) = dec_frame empty_frame.
Proof. destruct s as [[[|x l]|] pa fl]; intros H; try discriminate; reflexivity. Qed.

(* what the two wrappers guarantee, whatever the wrapped code does: success keeps its store; a failure or ANY exception puts
   the frame the check started from back on top of whatever the wrapped code left, and passes the result / exception on *)
Theorem rollback_wrappers_as_in_source ext cls obj s (which : bool) :
  wf_top s ->
  let name := if which then "array_tail" else "pytree_tail" in
  let ok := if which then array_ok else pytree_ok in
  exists args,
    let '(r1, s1) := ext (if which then "_check_shape" else "_check") args s in
    exists r' s', run_ext ext rollback_src name [cls; obj] s = Some (r', s') /\
      match r1 with
      | SRExn x => r' = SRExn x /\ abs_store s' = set_top (abs_store s1) (top_frame (abs_store s))
      | SRVal v => match ok v with
                   | Some true => r' = SRVal v /\ s' = s1
                   | Some false => r' = SRVal v /\ abs_store s' = set_top (abs_store s1) (top_frame (abs_store s))
                   | None => r' = SRExn XOther
                   end
      end.
Proof.
  intros W name ok. destruct W as [N | [r0 [a [b [c [d H]]]]]].
  - destruct which; subst name ok.
    + exists [obj; SVDict DEmpty; SVDict DEmpty; SVDict DEmpty]. rewrite (array_tail_outside ext cls obj s N).
      destruct (ext "_check_shape" [obj; SVDict DEmpty; SVDict DEmpty; SVDict DEmpty] s) as [[v|x] s1]; cbn [tail_result].
      * destruct (array_ok v) as [[|]|]; eexists _, _; (split; [reflexivity|]); try (split; [reflexivity|]); try reflexivity.
        rewrite restore_top_abs, (top_frame_outside s N). reflexivity.
      * eexists _, _. split; [reflexivity|]. split; [reflexivity|]. rewrite restore_top_abs, (top_frame_outside s N). reflexivity.
    + exists [obj; SVDict DEmpty]. rewrite (pytree_tail_outside ext cls obj s N).
      destruct (ext "_check" [obj; SVDict DEmpty] s) as [[v|x] s1]; cbn [tail_result].
      * destruct (pytree_ok v) as [[|]|]; eexists _, _; (split; [reflexivity|]); try (split; [reflexivity|]); try reflexivity.
        rewrite restore_top_abs, (top_frame_outside s N). reflexivity.
      * eexists _, _. split; [reflexivity|]. split; [reflexivity|]. rewrite restore_top_abs, (top_frame_outside s N). reflexivity.
  - destruct which; subst name ok.
    + exists [obj; SVDict a; SVDict b; SVDict d]. rewrite (array_tail_in_context ext cls obj s r0 a b c d H).
      destruct (ext "_check_shape" [obj; SVDict a; SVDict b; SVDict d] s) as [[v|x] s1]; cbn [tail_result].
      * destruct (array_ok v) as [[|]|]; eexists _, _; (split; [reflexivity|]); try (split; [reflexivity|]); try reflexivity.
        rewrite restore_top_abs, (top_frame_of_last s r0 _ H). reflexivity.
      * eexists _, _. split; [reflexivity|]. split; [reflexivity|]. rewrite restore_top_abs, (top_frame_of_last s r0 _ H). reflexivity.
    + exists [obj; SVDict c]. rewrite (pytree_tail_in_context ext cls obj s r0 a b c d H).
      destruct (ext "_check" [obj; SVDict c] s) as [[v|x] s1]; cbn [tail_result].
      * destruct (pytree_ok v) as [[|]|]; eexists _, _; (split; [reflexivity|]); try (split; [reflexivity|]); try reflexivity.
        rewrite restore_top_abs, (top_frame_of_last s r0 _ H). reflexivity.
      * eexists _, _. split; [reflexivity|]. split; [reflexivity|]. rewrite restore_top_abs, (top_frame_of_last s r0 _ H). reflexivity.
Qed.

(* non-vacuity: a concrete history through the translated accessors -- push, push, set the top, get it back, label, pop *)
Example storage_src_runs :
  let s0 := mktls None None None in
  let step f args s := match run_acc storage_src f args s with Some (_, s') => s' | None => s end in
  let s1 := step "push_shape_memo" [SVDict (DArgs [("k", 2%Z)])] s0 in
  let s2 := step "push_shape_memo" [SVDict DEmpty] s1 in
  let s3 := step "set_shape_memo" [SVDict (DSingle [("n", 3%Z)]); SVDict DEmpty; SVDict DEmpty; SVDict DEmpty] s2 in
  let s4 := step "set_treepath_memo" [SVInt 1; SVStr "T"] s3 in
  let s5 := step "pop_shape_memo" [] s4 in
  option_map fst (run_acc storage_src "get_shape_memo" [] s3) = Some (SRVal (SVTuple [SVDict (DSingle [("n", 3%Z)]); SVDict DEmpty; SVDict DEmpty; SVDict DEmpty])) /\
  ps_path (abs_store s4) = Some "(Leaf 1 in structure T) " /\
  map (fun f => margs (fst f)) (ps_stack (abs_store s5)) = [[("k", 2%Z)]] /\
  option_map fst (run_acc storage_src "set_treepath_memo" [SVInt 0; SVStr "S"] s4) = Some (SRExn XAnnotation) /\
  option_map fst (run_acc storage_src "pop_shape_memo" [] s0) = Some (SRExn XAttribute).
Proof. vm_compute. repeat split. Qed.

(* ---------- every state the accessors can reach is well-formed ---------- *)
Definition frame_ok (v : sval) : Prop := exists a b c d, v = SVTuple [SVDict a; SVDict b; SVDict c; SVDict d].
Definition wf_state (s : tls) : Prop := wf_cells s /\ Forall frame_ok (stack_or_nil s).

Lemma wf_state_top s : wf_state s -> wf_top s.
Proof.
  intros [_ F]. destruct s as [[[|x l]|] pa fl]; try (left; reflexivity). right.
  destruct (@exists_last _ (x :: l)) as [r0 [y E]]; [discriminate|].
  cbn [stack_or_nil t_stack] in F. rewrite E in F. apply Forall_app in F. destruct F as [_ F]. inversion F as [|? ? [a [b [c [d ->]]]] _]; subst.
  exists r0, a, b, c, d. cbn. rewrite E. reflexivity.
Qed.

Fixpoint state_after (m : smodule) (ops : list sop) (s : tls) : tls :=
  match ops with
  | [] => s
  | o :: r => let '(f, args) := op_call o in
              match run_acc m f args s with Some (_, s') => state_after m r s' | None => s end
  end.

Lemma Forall_removelast {A} (P : A -> Prop) (l : list A) : Forall P l -> Forall P (removelast l).
Proof. induction 1 as [|x l Hx Hl IH]; [constructor|]. destruct l; [constructor|]. cbn. constructor; assumption. Qed.

Lemma op_preserves_wf o s : wf_state s ->
  let '(f, args) := op_call o in
  match run_acc context_src f args s with Some (_, s') => wf_state s' | None => True end.
Proof.
  intros [[W1 W2] F]. destruct o; cbn [op_call].
  - (* has *) destruct s as [[[|x l]|] pa fl]; cbn; (split; [split|]; assumption).
  - (* get *) destruct (run_acc context_src "get_shape_memo" [] s) as [[r s']|] eqn:R; [|exact I].
    assert (s' = s).
    { destruct (nonempty s) eqn:N.
      - destruct s as [[[|x l]|] pa fl]; try discriminate.
        destruct (@exists_last _ (x :: l)) as [r0 [y E]]; [discriminate|].
        assert (L : last (x :: l) SVNone = y) by (rewrite E; apply last_app_one).
        unfold run_acc, run_fun in R. cbn -[last] in R. rewrite L in R.
        destruct y as [| | | | |[|a [|b [|c [|d [|e t]]]]]| |]; cbn in R; injection R; auto.
      - destruct s as [[[|x l]|] pa fl]; try discriminate; cbn in R; injection R; auto. }
    subst s'. split; [split|]; assumption.
  - (* set *) destruct s as [[[|x l]|] pa fl]; cbn -[set_last]; try (split; [split|]; assumption).
    split; [split; assumption|]. cbn [stack_or_nil t_stack with_stack] in *. unfold set_last. apply Forall_app. split.
    + apply Forall_removelast. exact F.
    + constructor; [|constructor]. exists a, b, c, d. reflexivity.
  - (* push *) destruct s as [[l|] pa fl]; cbn; (split; [split; assumption|]); cbn [stack_or_nil t_stack] in *.
    + apply Forall_app. split; [exact F|]. constructor; [|constructor]. exists DEmpty, DEmpty, DEmpty, d. reflexivity.
    + constructor; [|constructor]. exists DEmpty, DEmpty, DEmpty, d. reflexivity.
  - (* pop *) destruct s as [[[|x l]|] pa fl]; cbn -[removelast]; try (split; [split|]; assumption).
    split; [split; assumption|]. cbn [stack_or_nil t_stack with_stack] in *. apply Forall_removelast. exact F.
  - (* clearpath *) cbn. split; [split; [right; left; reflexivity | exact W2] | exact F].
  - (* setpath *) destruct i as [z|]; destruct s as [st [[]|] fl]; cbn; try (split; [split|]; assumption);
      (split; [split; [right; right; eexists; reflexivity | exact W2] | exact F]).
  - (* getpath *) destruct s as [st [[]|] fl]; cbn; (split; [split|]; assumption).
  - (* clearflat *) cbn. split; [split; [exact W1 | right; eexists; reflexivity] | exact F].
  - (* setflat *) cbn. split; [split; [exact W1 | right; eexists; reflexivity] | exact F].
  - (* getflat *) destruct s as [st pa [v|]]; cbn; (split; [split|]; assumption).
  - (* enter *) destruct s as [[l|] pa fl]; cbn; (split; [split; assumption|]); cbn [stack_or_nil t_stack] in *.
    + apply Forall_app. split; [exact F|]. constructor; [|constructor]. exists DEmpty, DEmpty, DEmpty, DEmpty. reflexivity.
    + constructor; [|constructor]. exists DEmpty, DEmpty, DEmpty, DEmpty. reflexivity.
  - (* exit *) destruct s as [[[|x l]|] pa fl]; cbn -[removelast]; try (split; [split|]; assumption).
    split; [split; assumption|]. cbn [stack_or_nil t_stack with_stack] in *. apply Forall_removelast. exact F.
Qed.

Theorem reachable_states_are_well_formed ops :
  wf_state (state_after context_src ops (mktls None None None)) /\ wf_top (state_after context_src ops (mktls None None None)).
Proof.
  assert (G : forall ops s, wf_state s -> wf_state (state_after context_src ops s)).
  { clear ops. induction ops as [|o r IH]; intros s W; [exact W|]. cbn [state_after].
    pose proof (op_preserves_wf o s W) as P. destruct (op_call o) as [f args].
    destruct (run_acc context_src f args s) as [[res s']|]; [apply IH; exact P | exact W]. }
  assert (W0 : wf_state (mktls None None None)) by (split; [exact wf_initial | constructor]).
  split; [|apply wf_state_top]; apply G; exact W0.
Qed.

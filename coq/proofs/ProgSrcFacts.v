(* ProgSrcFacts.v -- with the try/finally read from the source the parametrised interpreter is model/Prog.v's, hence every
   block restores the caller's bindings; without it a call whose body raises leaves its context on the stack. *)
From JT Require Import model.ProgSrc proofs.ProgFacts.
Open Scope string_scope.

Section S.
Variables (lbl : option string) (st : symtab).

Lemma run_src_call fin sty binds params body x s :
  run_src fin lbl st (PCall sty binds params body x) s =
  if negb binds then (s, [], Some OtherExc)
  else
    let s0 := push_memo s [] in
    match sty with
    | SNone =>
        match x with
        | XGenerator => let '(s1, ev, sg) := run_list_src fin lbl st body (pop_memo s0) in (s1, ev, sg)
        | _ => finish_src fin (let '(s1, ev, sg) := run_list_src fin lbl st body s0 in
                               (s1, ev, match sg with Some e => Some e | None => exit_sig x end))
        end
    | SNew | SOld =>
        match walk lbl st params s0 with
        | (Acc, s1) =>
            match x with
            | XGenerator => run_list_src fin lbl st body (pop_memo s1)
            | _ => finish_src fin (let '(s2, ev, sg) := run_list_src fin lbl st body s1 in
                                   (s2, ev, match sg with Some e => Some e | None => exit_sig x end))
            end
        | (Rej, s1) => finish_src fin (s1, [], Some OtherExc)
        | (Raise e, s1) => finish_src fin (s1, [], Some (match e with AnnotationErr => AnnotationErr | BaseExc => BaseExc | _ => OtherExc end))
        end
    end.
Proof. reflexivity. Qed.

Lemma run_src_context fin body x s :
  run_src fin lbl st (PContext body x) s =
  (let s0 := push_memo s [] in
   let '(s1, ev, sg) := run_list_src fin lbl st body s0 in
   (pop_memo s1, ev, match sg with Some e => Some e | None => exit_sig x end)).
Proof. reflexivity. Qed.

Lemma run_src_try fin body s :
  run_src fin lbl st (PTry body) s =
  match run_list_src fin lbl st body s with
  | (s1, ev, Some e) => (s1, (ev ++ [EvExc e])%list, None)
  | r => r
  end.
Proof. reflexivity. Qed.

Lemma finish_src_true r : finish_src true r = (let '(s1, ev, sg) := r in (pop_memo s1, ev, sg)).
Proof. destruct r as [[s1 ev] [e|]]; reflexivity. Qed.

Theorem run_src_true_is_run p : forall s, run_src true lbl st p s = run lbl st p s.
Proof.
  induction p as [u| |sty b ps body x IH|body x IH|body IH| |p r IHp IHr] using prog_ind2
    with (Q := fun l => forall s, run_list_src true lbl st l s = run_list lbl st l s); intros s.
  - reflexivity.
  - reflexivity.
  - rewrite run_src_call, run_call. destruct (negb b); [reflexivity|]. cbv zeta.
    destruct sty.
    + destruct (walk lbl st ps (push_memo s [])) as [[| |e] s1]; try (rewrite finish_src_true; reflexivity).
      destruct x; try (rewrite finish_src_true, IH; reflexivity). apply IH.
    + destruct (walk lbl st ps (push_memo s [])) as [[| |e] s1]; try (rewrite finish_src_true; reflexivity).
      destruct x; try (rewrite finish_src_true, IH; reflexivity). apply IH.
    + destruct x; try (rewrite finish_src_true, IH; reflexivity). rewrite IH. reflexivity.
  - rewrite run_src_context, run_context. cbv zeta. rewrite IH. reflexivity.
  - rewrite run_src_try, run_try. rewrite IH. reflexivity.
  - reflexivity.
  - cbn [run_list_src run_list]. rewrite IHp. destruct (run lbl st p s) as [[s1 ev1] [e|]]; [reflexivity|]. rewrite IHr. reflexivity.
Qed.

Theorem run_list_src_true_is_run_list l : forall s, run_list_src true lbl st l s = run_list lbl st l s.
Proof.
  induction l as [|p r IH]; intros s; [reflexivity|].
  cbn [run_list_src run_list]. rewrite run_src_true_is_run. destruct (run lbl st p s) as [[s1 ev1] [e|]]; [reflexivity|]. rewrite IH. reflexivity.
Qed.

Theorem block_restores_stack_src fin p s s' ev sg :
  fin = true ->
  match p with
  | PCall _ _ _ _ XGenerator => False
  | PCall _ _ _ _ _ | PContext _ _ => True
  | _ => False
  end ->
  run_src fin lbl st p s = (s', ev, sg) -> s' = s.
Proof. intros -> Hb H. rewrite run_src_true_is_run in H. eapply block_restores_stack; eauto. Qed.
End S.

(* a pop placed after the body instead of in a finally: a decorated call whose body raises leaves its context behind *)
Theorem pop_after_body_refuted : exists lbl st p s s' ev sg,
  match p with PCall _ _ _ _ XGenerator => False | PCall _ _ _ _ _ => True | _ => False end /\
  run_src false lbl st p s = (s', ev, sg) /\ s' <> s.
Proof.
  exists None, [], (PCall SNew true [(A "n", V [3]%Z)] [] (XRaise false)), [].
  eexists. eexists. eexists. split; [exact I|]. split; [vm_compute; reflexivity | discriminate].
Qed.

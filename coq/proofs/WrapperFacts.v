(* WrapperFacts.v -- the error path of the new-style wrapper (C13). *)
From JT Require Import model.Wrapper proofs.BroadcastFacts proofs.CheckFacts.
From Coq Require Import Lia.
Open Scope string_scope.

Section W.
Variables (lbl : option string) (st : symtab).

Lemma walk_app us1 : forall us2 s s1,
  walk lbl st us1 s = (Acc, s1) -> walk lbl st (us1 ++ us2) s = walk lbl st us2 s1.
Proof.
  induction us1 as [|[a v] us1 IH]; intros us2 s s1 H; cbn in *.
  - inversion H; reflexivity.
  - destruct (instancecheck false lbl st a v s) as [vd s'] eqn:E. destruct vd; try discriminate. now apply IH.
Qed.

(* the blamed parameter: every parameter declared before it passes (in order, sharing
   bindings), it does not, and the bindings afterwards are those of the ones before it *)
Theorem problem_arg_blames_first_failure : forall us idx s k s',
  problem_arg lbl st us idx s = (PBlame (Some k), s') ->
  exists pre a v post,
    us = (pre ++ (a, v) :: post)%list /\ k = (idx + length pre)%nat /\
    walk lbl st pre s = (Acc, s') /\
    fst (instancecheck false lbl st a v s') <> Acc /\
    snd (instancecheck false lbl st a v s') = s'.
Proof.
  induction us as [|[a v] us IH]; intros idx s k s' H; cbn in H; [discriminate|].
  destruct (instancecheck false lbl st a v s) as [vd s1] eqn:E.
  assert (Hrest : vd <> Acc -> s1 = s) by (intros Hn; eapply instancecheck_not_acc_restores; eauto).
  destruct vd as [| |e].
  - destruct (IH _ _ _ _ H) as [pre [a' [v' [post [Hus [Hk [Hw [Hn Hs]]]]]]]].
    exists ((a, v) :: pre), a', v', post. cbn. rewrite E. repeat split; auto; try lia; try (now rewrite Hus).
  - inversion H; subst. rewrite (Hrest ltac:(discriminate)) in *.
    exists [], a, v, us. cbn. rewrite E. repeat split; auto; try lia; try discriminate.
  - destruct (is_exception_subclass e); [|discriminate]. inversion H; subst. rewrite (Hrest ltac:(discriminate)) in *.
    exists [], a, v, us. cbn. rewrite E. repeat split; auto; try lia; try discriminate.
Qed.

(* nobody blamed: every parameter passes on its own *)
Theorem problem_arg_none : forall us idx s s',
  problem_arg lbl st us idx s = (PBlame None, s') -> walk lbl st us s = (Acc, s').
Proof.
  induction us as [|[a v] us IH]; intros idx s s' H; cbn in *.
  - inversion H; reflexivity.
  - destruct (instancecheck false lbl st a v s) as [vd s1] eqn:E. destruct vd as [| |e].
    + eapply IH; eauto.
    + discriminate.
    + destruct (is_exception_subclass e); discriminate.
Qed.

(* a TypeCheckError is raised only when some walk did not accept, and never for a misuse
   of the annotation language; success means both walks accepted *)
Theorem call_ok_iff params ret s0 s' :
  call_new lbl st params ret s0 = (CROk, s') <->
  exists s1, walk lbl st params s0 = (Acc, s1) /\
             match ret with None => s' = s1 | Some r => walk lbl st (params ++ [r]) s1 = (Acc, s') end.
Proof.
  unfold call_new. split.
  - destruct (walk lbl st params s0) as [vd s1] eqn:Ew. destruct vd as [| |e].
    + destruct ret as [r|].
      * destruct (walk lbl st (params ++ [r]) s1) as [vd2 s2] eqn:Ew2. destruct vd2 as [| |e2].
        -- intros H; inversion H; subst. exists s1. auto.
        -- discriminate.
        -- destruct (converted e2); discriminate.
      * intros H; inversion H; subst. exists s'. auto.
    + destruct (problem_arg lbl st params 0 s1) as [[k|e] s2]; discriminate.
    + destruct (converted e); [destruct (problem_arg lbl st params 0 s1) as [[k|e'] s2]|]; discriminate.
  - intros [s1 [Hw Hr]]. rewrite Hw. destruct ret as [r|]; [rewrite Hr|subst]; reflexivity.
Qed.

Theorem annotation_error_passes_through params ret s0 :
  (exists s1, walk lbl st params s0 = (Raise AnnotationErr, s1)) \/
  (exists s1 r s2, walk lbl st params s0 = (Acc, s1) /\ ret = Some r /\ walk lbl st (params ++ [r]) s1 = (Raise AnnotationErr, s2)) ->
  fst (call_new lbl st params ret s0) = CRRaise AnnotationErr.
Proof.
  unfold call_new. intros [[s1 H]|[s1 [r [s2 [H1 [Hr H2]]]]]].
  - rewrite H. reflexivity.
  - rewrite H1. subst ret. rewrite H2. reflexivity.
Qed.

(* ... and a TypeCheckError is never produced out of an AnnotationError raised by the walks *)
Theorem typecheck_error_not_from_annotation_error params ret s0 stg k m s' :
  call_new lbl st params ret s0 = (CRTypeCheck stg k m, s') ->
  match stg with
  | SParams => exists vd s1, walk lbl st params s0 = (vd, s1) /\ (vd = Rej \/ exists e, vd = Raise e /\ converted e = true)
  | SReturn => exists s1 r vd, walk lbl st params s0 = (Acc, s1) /\ ret = Some r /\
               walk lbl st (params ++ [r]) s1 = (vd, s') /\ (vd = Rej \/ exists e, vd = Raise e /\ converted e = true)
  end /\ m = get_memo s'.
Proof.
  unfold call_new. destruct (walk lbl st params s0) as [vd s1] eqn:Ew. destruct vd as [| |e].
  - destruct ret as [r|]; [|discriminate].
    destruct (walk lbl st (params ++ [r]) s1) as [vd2 s2] eqn:Ew2. destruct vd2 as [| |e2]; try discriminate.
    + intros H; inversion H; subst. split; [|reflexivity]. exists s1, r, Rej. auto.
    + destruct (converted e2) eqn:Ec; [|discriminate]. intros H; inversion H; subst. split; [|reflexivity].
      exists s1, r, (Raise e2). repeat split; auto. right. eauto.
  - destruct (problem_arg lbl st params 0 s1) as [[k'|e'] s2]; [|discriminate].
    intros H; inversion H; subst. split; [|reflexivity]. exists Rej, s1. auto.
  - destruct (converted e) eqn:Ec; [|discriminate].
    destruct (problem_arg lbl st params 0 s1) as [[k'|e'] s2]; [|discriminate].
    intros H; inversion H; subst. split; [|reflexivity]. exists (Raise e), s1. split; auto. right. eauto.
Qed.

End W.

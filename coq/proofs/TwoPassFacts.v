(* TwoPassFacts.v -- re-walking uses that were accepted changes nothing: the wrapper's second pass over the
   parameters is idempotent, so a call is accepted iff ONE walk over parameters + return value accepts (C02, C13). *)
From JT Require Import model.Wrapper proofs.BroadcastFacts proofs.CheckFacts proofs.WrapperFacts.
From Coq Require Import Lia.
Open Scope string_scope.

Lemma ble_trans a b c : ble a b -> ble b c -> ble a c.
Proof. intros Hab Hbc. apply (bcast_lub a b c). exists b. split; [exact Hab | exact Hbc]. Qed.

(* the information order on variadic memos: a pinned shape stays; a lower bound may grow or get pinned above it *)
Definition vle (vm vmx : alist (bool * list Z)) : Prop :=
  forall n bc s, aget vm n = Some (bc, s) ->
  exists bc' s', aget vmx n = Some (bc', s') /\ (if bc then ble s s' else bc' = false /\ s' = s).

Lemma vle_refl vm : vle vm vm.
Proof. intros n bc s H. exists bc, s. split; [exact H|]. destruct bc; [apply ble_refl | auto]. Qed.

Lemma vle_trans a b c : vle a b -> vle b c -> vle a c.
Proof.
  intros H1 H2 n bc s Hn. destruct (H1 _ _ _ Hn) as [bc1 [s1 [Hg1 R1]]]. destruct (H2 _ _ _ Hg1) as [bc2 [s2 [Hg2 R2]]].
  exists bc2, s2. split; [exact Hg2|]. destruct bc.
  - destruct bc1; [eapply ble_trans; eauto | destruct R2 as [_ ->]; exact R1].
  - destruct R1 as [-> ->]. exact R2.
Qed.

Lemma check_variadic_mono name bc mid vm vm1 : check_variadic name bc mid vm = (COk, vm1) -> vle vm vm1.
Proof.
  unfold check_variadic. intros H n bc0 s0 Hn.
  assert (Hother : forall x, n <> name -> aget (aset vm name x) n = Some (bc0, s0)).
  { intros x Hne. rewrite aget_aset. destruct (String.eqb n name) eqn:E; [apply String.eqb_eq in E; contradiction | exact Hn]. }
  assert (Hrefl : if bc0 then ble s0 s0 else false = false /\ s0 = s0) by (destruct bc0; [apply ble_refl | auto]).
  destruct (aget vm name) as [[pbc ps]|] eqn:Eg.
  - destruct pbc.
    + destruct (bcast mid ps) as [b|] eqn:Eb; [|discriminate].
      destruct (negb bc && negb (zlist_eqb b mid)); [discriminate|]. inversion H; subst vm1.
      destruct (String.eqb n name) eqn:E.
      * apply String.eqb_eq in E. subst n. rewrite Eg in Hn. inversion Hn; subst. exists bc, b. split; [apply aget_aset_same|].
        apply (bcast_upper _ _ _ Eb).
      * apply String.eqb_neq in E. exists bc0, s0. split; [now apply Hother | destruct bc0; [apply ble_refl | auto]].
    + destruct bc.
      * destruct (bcast mid ps) as [b|]; [|discriminate]. destruct (zlist_eqb b ps); [|discriminate]. inversion H; subst vm1.
        exists bc0, s0. split; [exact Hn | destruct bc0; [apply ble_refl | auto]].
      * destruct (zlist_eqb mid ps); [|discriminate]. inversion H; subst vm1.
        exists bc0, s0. split; [exact Hn | destruct bc0; [apply ble_refl | auto]].
  - inversion H; subst vm1. destruct (String.eqb n name) eqn:E.
    + apply String.eqb_eq in E. subst n. congruence.
    + apply String.eqb_neq in E. exists bc0, s0. split; [now apply Hother | destruct bc0; [apply ble_refl | auto]].
Qed.

(* a use of `*name` that was accepted is accepted again, without changing anything, in every later state *)
Lemma check_variadic_again_later name bc mid vm vm1 vmx :
  check_variadic name bc mid vm = (COk, vm1) -> vle vm1 vmx -> check_variadic name bc mid vmx = (COk, vmx).
Proof.
  intros H Hle.
  (* what vm1 says about `name` *)
  assert (H1 : exists bc1 s1, aget vm1 name = Some (bc1, s1) /\ (if bc then ble mid s1 else bc1 = false /\ s1 = mid)).
  { unfold check_variadic in H. destruct (aget vm name) as [[pbc ps]|] eqn:Eg.
    - destruct pbc.
      + destruct (bcast mid ps) as [b|] eqn:Eb; [|discriminate].
        destruct (negb bc && negb (zlist_eqb b mid)) eqn:Ec; [discriminate|]. inversion H; subst vm1.
        exists bc, b. split; [apply aget_aset_same|]. destruct bc.
        * apply (bcast_upper _ _ _ Eb).
        * cbn in Ec. apply negb_false_iff, zlist_eqb_eq in Ec. auto.
      + destruct bc.
        * destruct (bcast mid ps) as [b|] eqn:Eb; [|discriminate]. destruct (zlist_eqb b ps) eqn:Ec; [|discriminate].
          apply zlist_eqb_eq in Ec. subst b. inversion H; subst vm1. exists false, ps. split; [exact Eg | exact Eb].
        * destruct (zlist_eqb mid ps) eqn:Ec; [|discriminate]. apply zlist_eqb_eq in Ec. subst ps. inversion H; subst vm1.
          exists false, mid. auto.
    - inversion H; subst vm1. exists bc, mid. split; [apply aget_aset_same|]. destruct bc; [apply ble_refl | auto]. }
  destruct H1 as [bc1 [s1 [Hg1 R1]]]. destruct (Hle _ _ _ Hg1) as [bcx [sx [Hgx Rx]]].
  unfold check_variadic. rewrite Hgx.
  destruct bc.
  - (* this use is broadcastable: mid broadcasts to whatever is stored now *)
    assert (Hm : ble mid sx).
    { destruct bc1; [eapply ble_trans; eauto | destruct Rx as [_ ->]; exact R1]. }
    unfold ble in Hm. rewrite Hm. destruct bcx.
    + cbn. now rewrite (aset_same _ _ _ Hgx).
    + now rewrite zlist_eqb_refl.
  - destruct R1 as [-> ->]. destruct Rx as [-> ->]. now rewrite zlist_eqb_refl.
Qed.

(* ---------- memos ---------- *)
Definition mle (m mx : memo) : Prop :=
  extends (single m) (single mx) /\ vle (variadic m) (variadic mx) /\ margs m = margs mx.

Lemma mle_refl m : mle m m. Proof. repeat split; [apply extends_refl | apply vle_refl]. Qed.
Lemma mle_trans a b c : mle a b -> mle b c -> mle a c.
Proof. intros [H1 [H2 H3]] [H4 [H5 H6]]. repeat split; [eapply extends_trans; eauto | eapply vle_trans; eauto | congruence]. Qed.

Section Shape.
Variables (lbl : option string) (st : symtab).

Lemma suffix_norm' args dl sh sm i :
  (i < length dl)%nat ->
  (if (length dl - i - 1 =? 0)%nat then (COk, sm)
   else check_dims lbl st args (skipn (length dl - (length dl - i - 1)) dl) (skipn (length sh - (length dl - i - 1)) sh) sm)
  = check_dims lbl st args (skipn (S i) dl) (skipn (length sh - (length dl - i - 1)) sh) sm.
Proof. intros Hi. exact (suffix_norm lbl st args dl sh sm i Hi). Qed.

(* what an accepted shape check returns, spelled out *)
Lemma check_shape_ok_inv d sh m m' :
  wf_dims d -> check_shape lbl st d sh m = (COk, m') ->
  mle m m' /\ forall mx, mle m' mx -> check_shape lbl st d sh mx = (COk, mx).
Proof.
  intros Hwf H. unfold check_shape in H.
  destruct (ivar d) as [i|] eqn:Ei.
  - specialize (Hwf i Ei).
    destruct (length sh <? length (ds d) - 1)%nat eqn:Elt; [discriminate|].
    destruct (check_dims lbl st (margs m) (firstn i (ds d)) (firstn i sh) (single m)) as [r1 sm1] eqn:E1.
    destruct r1; try discriminate.
    rewrite (suffix_norm' (margs m) (ds d) sh sm1 i Hwf) in H.
    destruct (check_dims lbl st (margs m) (skipn (S i) (ds d)) (skipn (length sh - (length (ds d) - i - 1)) sh) sm1) as [r2 sm2] eqn:E2.
    destruct r2; try discriminate.
    pose proof (check_dims_extends lbl st _ _ _ _ _ E1) as X1. pose proof (check_dims_extends lbl st _ _ _ _ _ E2) as X2.
    assert (Hagain : forall mx, extends sm2 (single mx) -> margs mx = margs m ->
              check_dims lbl st (margs mx) (firstn i (ds d)) (firstn i sh) (single mx) = (COk, single mx) /\
              check_dims lbl st (margs mx) (skipn (S i) (ds d)) (skipn (length sh - (length (ds d) - i - 1)) sh) (single mx) = (COk, single mx)).
    { intros mx Hx Ha. rewrite Ha. split.
      - eapply check_dims_again; [exact E1 | eapply extends_trans; eauto].
      - eapply check_dims_again; [exact E2 | exact Hx]. }
    destruct (nth_error (ds d) i) as [dv|] eqn:En; [|discriminate].
    destruct dv as [| |n bc tp|n bc tp|n bc|src bc]; try discriminate.
    + inversion H; subst m'. split.
      * repeat split; cbn; [eapply extends_trans; eauto | apply vle_refl].
      * intros mx [Hs [Hv Ha]]. cbn in Hs, Hv, Ha. unfold check_shape. rewrite Ei, Elt.
        destruct (Hagain mx Hs (eq_sym Ha)) as [A1 A2]. rewrite A1.
        rewrite (suffix_norm' (margs mx) (ds d) sh (single mx) i Hwf), A2, En. destruct mx; reflexivity.
    + destruct (dkey lbl n tp) as [kname|] eqn:Ek; [|discriminate].
      destruct (check_variadic kname bc _ (variadic m)) as [r3 vm] eqn:E3.
      inversion H; subst r3 m'. split.
      * repeat split; cbn; [eapply extends_trans; eauto | eapply check_variadic_mono; eauto].
      * intros mx [Hs [Hv Ha]]. cbn in Hs, Hv, Ha. unfold check_shape. rewrite Ei, Elt.
        destruct (Hagain mx Hs (eq_sym Ha)) as [A1 A2]. rewrite A1.
        rewrite (suffix_norm' (margs mx) (ds d) sh (single mx) i Hwf), A2, En, Ek.
        rewrite (check_variadic_again_later _ _ _ _ _ _ E3 Hv). destruct mx; reflexivity.
  - destruct (negb (length sh =? length (ds d))%nat) eqn:El; [discriminate|].
    destruct (check_dims lbl st (margs m) (ds d) sh (single m)) as [r sm] eqn:E1.
    inversion H; subst r m'. split.
    + repeat split; cbn; [eapply check_dims_extends; eauto | apply vle_refl].
    + intros mx [Hs [Hv Ha]]. cbn in Hs, Hv, Ha. unfold check_shape. rewrite Ei, El. rewrite <- Ha.
      rewrite (check_dims_again lbl st _ _ _ _ _ _ E1 Hs). rewrite Ha. destruct mx; reflexivity.
Qed.

Lemma instancecheck_acc_inv a v m s s' :
  wf_annot a -> instancecheck false lbl st a v (m :: s) = (Acc, s') ->
  exists m', s' = m' :: s /\ mle m m' /\ forall mx, mle m' mx -> instancecheck false lbl st a v (mx :: s) = (Acc, mx :: s).
Proof.
  intros [Hskip Hwf] H. unfold instancecheck in H |- *. rewrite Hskip in H.
  destruct (negb (if a_any a then v_attrs v else v_inst v)) eqn:E1; [discriminate|].
  destruct (negb (dtype_ok a (v_dtype v))) eqn:E2; [discriminate|]. cbn [get_memo set_memo] in H.
  destruct (check_shape lbl st (a_dims a) (v_shape v) m) as [r m'] eqn:E. destruct r; try discriminate.
  inversion H; subst s'. exists m'. split; [reflexivity|].
  destruct (check_shape_ok_inv _ _ _ _ Hwf E) as [Hle Hag]. split; [exact Hle|].
  intros mx Hx. rewrite ?Hskip, ?E1, ?E2. cbn [get_memo set_memo]. now rewrite (Hag mx Hx).
Qed.

(* re-walking accepted uses from any later state of the same context accepts again and changes nothing *)
Theorem walk_again : forall us m s s',
  Forall (fun u => wf_annot (fst u)) us ->
  walk lbl st us (m :: s) = (Acc, s') ->
  exists m', s' = m' :: s /\ mle m m' /\ forall mx, mle m' mx -> walk lbl st us (mx :: s) = (Acc, mx :: s).
Proof.
  induction us as [|[a v] us IH]; intros m s s' Hwf H.
  - cbn in H. inversion H; subst. exists m. split; [reflexivity|]. split; [apply mle_refl | intros; reflexivity].
  - inversion Hwf as [|? ? Hwa Hwr]; subst. cbn [fst] in Hwa. cbn [walk] in H.
    destruct (instancecheck false lbl st a v (m :: s)) as [vd s1] eqn:E. destruct vd; try discriminate.
    destruct (instancecheck_acc_inv _ _ _ _ _ Hwa E) as [m1 [-> [Hle1 Hag1]]].
    destruct (IH _ _ _ Hwr H) as [m' [-> [Hle' Hag']]].
    exists m'. split; [reflexivity|]. split; [eapply mle_trans; eauto|].
    intros mx Hx. cbn [walk]. rewrite (Hag1 mx (mle_trans _ _ _ Hle' Hx)). now apply Hag'.
Qed.

(* the second pass of the wrapper: parameters again, then the return value -- the parameters change nothing *)
Theorem second_pass_is_return_check params r s0 s1 :
  Forall (fun u => wf_annot (fst u)) params ->
  walk lbl st params s0 = (Acc, s1) -> s0 <> [] ->
  walk lbl st (params ++ [r]) s1 = walk lbl st [r] s1 /\ walk lbl st (params ++ [r]) s0 = walk lbl st [r] s1.
Proof.
  intros Hwf Hw Hne. destruct s0 as [|m s]; [congruence|].
  destruct (walk_again _ _ _ _ Hwf Hw) as [m' [-> [Hle Hag]]]. split.
  - apply (walk_app lbl st params [r] (m' :: s) (m' :: s)). apply Hag. apply mle_refl.
  - apply (walk_app lbl st params [r] (m :: s) (m' :: s)). exact Hw.
Qed.

End Shape.

Section Call.
Variables (lbl : option string) (st : symtab).

Lemma walk_app_stop us1 : forall us2 s vd s1,
  walk lbl st us1 s = (vd, s1) -> vd <> Acc -> walk lbl st (us1 ++ us2) s = (vd, s1).
Proof.
  induction us1 as [|[a v] us1 IH]; intros us2 s vd s1 H Hn; cbn in *.
  - inversion H; subst. congruence.
  - destruct (instancecheck false lbl st a v s) as [vd1 s'] eqn:E. destruct vd1; try (inversion H; subst; reflexivity). now apply IH.
Qed.

(* C02/C13: a decorated call (parameters walked, body, parameters and return value walked again) succeeds exactly
   when ONE assignment of sizes and shapes satisfies every parameter and the return value *)
Theorem call_succeeds_iff_consistent_assignment params r args vd s' :
  Forall (fun u => wf_annot (fst u)) (params ++ [r]) ->
  walk lbl st (params ++ [r]) (push_memo [] args) = (vd, s') -> (forall x, vd <> Raise x) ->
  (fst (call_new lbl st params (Some r) (push_memo [] args)) = CROk <->
   exists e, Forall (full_sat lbl st args e) (params ++ [r])).
Proof.
  intros Hwf Hw Hnr.
  assert (Hwfp : Forall (fun u => wf_annot (fst u)) params) by (apply Forall_app in Hwf; tauto).
  rewrite <- (walk_iff_sat lbl st _ _ _ _ Hwf Hw Hnr).
  unfold call_new. destruct (walk lbl st params (push_memo [] args)) as [vp s1] eqn:Ep.
  destruct vp as [| |e].
  - destruct (second_pass_is_return_check lbl st params r _ _ Hwfp Ep ltac:(discriminate)) as [H1 H2].
    rewrite H1. rewrite H2 in Hw. rewrite Hw.
    destruct vd as [| |x]; cbn; [tauto | split; discriminate | exfalso; eapply Hnr; eauto].
  - rewrite (walk_app_stop _ _ _ _ _ Ep ltac:(discriminate)) in Hw. inversion Hw; subst.
    destruct (problem_arg lbl st params 0 s') as [[k|e] s2]; cbn; split; discriminate.
  - rewrite (walk_app_stop _ _ _ _ _ Ep ltac:(discriminate)) in Hw. inversion Hw; subst. exfalso. eapply Hnr; eauto.
Qed.
End Call.

(* Trace.v -- the array check re-expressed over what it OBSERVES of the value (C17): objects carry element
   data and a tracer flag, which exist only so that the theorems can say they are never consulted.
   _array_types.py 184-248: isinstance / hasattr(shape), hasattr(dtype) / obj.dtype / obj.shape. *)
From JT Require Export model.Check.
Open Scope string_scope.

Inductive access := AIsInstance | AHasShape | AHasDtype | AGetDtype | AGetShape
                  | AForce.        (* bool() / int() / __index__ / __array__ / iteration: anything that needs a concrete value *)

Record obj := mkobj {
  o_inst : bool; o_attrs : bool; o_dtype : string; o_shape : list Z;
  o_data : list Z;          (* the element values *)
  o_tracer : bool }.        (* a JAX tracer: AForce on it raises *)

Definition observe (o : obj) : value := mkvalue (o_inst o) (o_attrs o) (o_dtype o) (o_shape o).

Definition instancecheck_log (flat : bool) (lbl : option string) (st : symtab) (a : annot) (o : obj) (s : stack)
  : (verdict * stack) * list access :=
  if a_skip a then ((Acc, s), [])
  else
    let l1 := if a_any a then [AHasShape; AHasDtype] else [AIsInstance] in
    if negb (if a_any a then o_attrs o else o_inst o) then ((Rej, s), l1)
    else if flat then ((Acc, s), l1)
    else
      let l2 := (l1 ++ [AGetDtype])%list in
      if negb (dtype_ok a (o_dtype o)) then ((Rej, s), l2)
      else
        let m := get_memo s in
        let '(r, m') := check_shape lbl st (a_dims a) (o_shape o) m in
        (match r with
         | COk => (Acc, set_memo s m')
         | CFail => (Rej, set_memo s m)
         | CRaise e => (Raise e, set_memo s m)
         end, (l2 ++ [AGetShape])%list).

(* HookAst.v -- a generic Python AST and the source transformation of the import hook,
   jaxtyping/_import_hook.py: JaxtypingTransformer 137-198 (an ast.NodeVisitor mutating in place)
   followed by ast.fix_missing_locations for the nodes it adds.  No proofs here. *)
From JT Require Export model.Base.
Open Scope string_scope.

Definition loc := option (Z * Z * Z * Z).      (* lineno, col_offset, end_lineno, end_col_offset; None: no location attributes *)

Inductive ast :=
| N (cls : string) (l : loc) (fields : list (string * field))
with field :=
| FScalar (repr : string)            (* identifiers, constants, operators' payloads, None: their repr *)
| FNode (n : ast)
| FList (ns : list ast).

Definition cls_of (a : ast) : string := match a with N c _ _ => c end.
Definition loc_of (a : ast) : loc := match a with N _ l _ => l end.
Definition fields_of (a : ast) : list (string * field) := match a with N _ _ f => f end.

Fixpoint get_field (name : string) (fs : list (string * field)) : option field :=
  match fs with [] => None | (n, f) :: r => if String.eqb n name then Some f else get_field name r end.

Fixpoint set_field (name : string) (v : field) (fs : list (string * field)) : list (string * field) :=
  match fs with [] => [] | (n, f) :: r => if String.eqb n name then (n, v) :: r else (n, f) :: set_field name v r end.

(* ---------- what the transformer adds ---------- *)
(* ast.Import(names=[ast.alias("jaxtyping", None)]) without locations; fix_missing_locations gives a
   node inserted into Module.body the initial position (1, 0, 1, 0), and its alias the same *)
Definition start_loc : loc := Some (1, 0, 1, 0)%Z.
Definition the_import : ast :=
  N "Import" start_loc [("names", FList [N "alias" start_loc [("name", FScalar "'jaxtyping'"); ("asname", FScalar "None")]])].

(* the decorator: the template parsed from the source text of Typechecker.get_ast (generated), with the
   location of the def/class copied onto its ROOT only (ast.copy_location); inner nodes keep the
   template's own positions *)
Definition relocate (dec : ast) (l : loc) : ast := match dec with N c _ f => N c l f end.

Definition is_future_import (a : ast) : bool :=
  String.eqb (cls_of a) "ImportFrom" &&
  match get_field "module" (fields_of a) with Some (FScalar s) => String.eqb s "'__future__'" | _ => false end.
Definition is_const_expr (a : ast) : bool :=
  String.eqb (cls_of a) "Expr" &&
  match get_field "value" (fields_of a) with Some (FNode x) => String.eqb (cls_of x) "Constant" | _ => false end.

(* visit_Module 142-152: before the first statement that is neither a __future__ import nor a bare constant;
   nothing is inserted when there is no such statement *)
Fixpoint insert_import (body : list ast) : list ast :=
  match body with
  | [] => []
  | s :: r => if is_future_import s || is_const_expr s then s :: insert_import r else the_import :: s :: r
  end.

Section X.
Variable dec : ast.        (* the decorator template for the hook's typechecker *)

(* NodeVisitor.visit: dispatch on the class, then generic_visit (every field, lists and single nodes).
   The code adds the import / decorator first and then visits all children, the added nodes included;
   the added nodes contain no def or class (proofs/HookFacts.v: dec_closed), so visiting them changes
   nothing and the model adds them after visiting the original children. *)
Fixpoint xform (a : ast) : ast :=
  match a with
  | N c l fs =>
      let fs' :=
        (fix go (fs : list (string * field)) : list (string * field) :=
           match fs with
           | [] => []
           | (n, f) :: r =>
               (n, match f with
                   | FScalar s => FScalar s
                   | FNode x => FNode (xform x)
                   | FList xs => FList ((fix gol (xs : list ast) : list ast :=
                                           match xs with [] => [] | x :: r => xform x :: gol r end) xs)
                   end) :: go r
           end) fs in
      N c l
        (if String.eqb c "Module" then
           match get_field "body" fs' with Some (FList b) => set_field "body" (FList (insert_import b)) fs' | _ => fs' end
         else if String.eqb c "ClassDef" then
           match get_field "decorator_list" fs' with Some (FList d) => set_field "decorator_list" (FList (relocate dec l :: d)) fs' | _ => fs' end
         else if String.eqb c "FunctionDef" then
           match get_field "decorator_list" fs' with Some (FList d) => set_field "decorator_list" (FList (d ++ [relocate dec l])) fs' | _ => fs' end
         else fs')
  end.
End X.

(* ---------- the inverse: remove exactly what the transformation adds ---------- *)
Fixpoint ast_eqb (a b : ast) {struct a} : bool :=
  match a, b with
  | N c l fs, N c' l' fs' =>
      String.eqb c c' &&
      match l, l' with
      | None, None => true
      | Some (x1, x2, x3, x4), Some (y1, y2, y3, y4) => (x1 =? y1)%Z && (x2 =? y2)%Z && (x3 =? y3)%Z && (x4 =? y4)%Z
      | _, _ => false
      end &&
      (fix go (fs fs' : list (string * field)) : bool :=
         match fs, fs' with
         | [], [] => true
         | (n, f) :: r, (n', f') :: r' =>
             String.eqb n n' &&
             match f, f' with
             | FScalar s, FScalar s' => String.eqb s s'
             | FNode x, FNode y => ast_eqb x y
             | FList xs, FList ys =>
                 (fix gol (xs ys : list ast) : bool :=
                    match xs, ys with [], [] => true | x :: r, y :: r' => ast_eqb x y && gol r r' | _, _ => false end) xs ys
             | _, _ => false
             end && go r r'
         | _, _ => false
         end) fs fs'
  end.

Fixpoint remove_import (body : list ast) : list ast :=
  match body with
  | [] => []
  | s :: r => if is_future_import s || is_const_expr s then s :: remove_import r
              else if ast_eqb s the_import then r else s :: r
  end.

Fixpoint strip (a : ast) : ast :=
  match a with
  | N c l fs =>
      let fs' :=
        (fix go (fs : list (string * field)) : list (string * field) :=
           match fs with
           | [] => []
           | (n, f) :: r =>
               (n, match f with
                   | FScalar s => FScalar s
                   | FNode x => FNode (strip x)
                   | FList xs => FList ((fix gol (xs : list ast) : list ast :=
                                           match xs with [] => [] | x :: r => strip x :: gol r end) xs)
                   end) :: go r
           end) fs in
      N c l
        (if String.eqb c "Module" then
           match get_field "body" fs' with Some (FList b) => set_field "body" (FList (remove_import b)) fs' | _ => fs' end
         else if String.eqb c "ClassDef" then
           match get_field "decorator_list" fs' with Some (FList d) => set_field "decorator_list" (FList (tl d)) fs' | _ => fs' end
         else if String.eqb c "FunctionDef" then
           match get_field "decorator_list" fs' with Some (FList d) => set_field "decorator_list" (FList (removelast d)) fs' | _ => fs' end
         else fs')
  end.

(* substitute the typechecker hash into the generated template.  The template is parsed from source text
   that contains the hash, so every column at or after the end of the placeholder literal moves by the
   difference of the lengths (the template is a single line). *)
Fixpoint hash_end (a : ast) : option Z :=
  match a with
  | N c l fs =>
      (fix go (fs : list (string * field)) : option Z :=
         match fs with
         | [] => None
         | (n, f) :: r =>
             match (match f with
                    | FScalar s => if String.eqb s "'@HASH@'" then match l with Some (_, _, _, e) => Some e | None => None end else None
                    | FNode x => hash_end x
                    | FList xs => (fix gol (xs : list ast) : option Z :=
                                     match xs with [] => None | x :: r => match hash_end x with Some e => Some e | None => gol r end end) xs
                    end) with
             | Some e => Some e
             | None => go r
             end
         end) fs
  end.

Definition shift_loc (from delta : Z) (l : loc) : loc :=
  match l with
  | None => None
  | Some (l1, c1, l2, c2) => Some (l1, if (c1 >=? from)%Z then (c1 + delta)%Z else c1, l2, if (c2 >=? from)%Z then (c2 + delta)%Z else c2)
  end.

Section Subst.
Variables (h : string) (from delta : Z).
Fixpoint subst_hash_at (a : ast) : ast :=
  match a with
  | N c l fs =>
      N c (shift_loc from delta l)
        ((fix go (fs : list (string * field)) : list (string * field) :=
            match fs with
            | [] => []
            | (n, f) :: r =>
                (n, match f with
                    | FScalar s => FScalar (if String.eqb s "'@HASH@'" then "'" ++ h ++ "'" else s)
                    | FNode x => FNode (subst_hash_at x)
                    | FList xs => FList ((fix gol (xs : list ast) : list ast :=
                                            match xs with [] => [] | x :: r => subst_hash_at x :: gol r end) xs)
                    end) :: go r
            end) fs)
  end.
End Subst.

Definition subst_hash (h : string) (a : ast) : ast :=
  match hash_end a with
  | Some e => subst_hash_at h e (Z.of_nat (String.length h) - 6) a
  | None => a
  end.

(* no def / class / module inside: the transformation is the identity on such a tree *)
Fixpoint closed (a : ast) : bool :=
  match a with
  | N c l fs =>
      negb (String.eqb c "Module" || String.eqb c "ClassDef" || String.eqb c "FunctionDef") &&
      (fix go (fs : list (string * field)) : bool :=
         match fs with
         | [] => true
         | (n, f) :: r =>
             match f with
             | FScalar _ => true
             | FNode x => closed x
             | FList xs => (fix gol (xs : list ast) : bool := match xs with [] => true | x :: r => closed x && gol r end) xs
             end && go r
         end) fs
  end.

(* ---------- canonical text (for the correspondence) ---------- *)
Definition show_loc (l : loc) : string :=
  match l with None => "-" | Some (a, b, c, d) => zs a ++ ":" ++ zs b ++ ":" ++ zs c ++ ":" ++ zs d end.

Fixpoint show_ast (a : ast) : string :=
  match a with
  | N c l fs =>
      "(" ++ c ++ " " ++ show_loc l ++
      (fix go (fs : list (string * field)) : string :=
         match fs with
         | [] => ""
         | (n, f) :: r =>
             " " ++ n ++ "=" ++
             match f with
             | FScalar s => s
             | FNode x => show_ast x
             | FList xs => "[" ++ (fix gol (xs : list ast) : string := match xs with [] => "" | x :: r => show_ast x ++ gol r end) xs ++ "]"
             end ++ go r
         end) fs ++ ")"
  end.

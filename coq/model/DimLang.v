(* DimLang.v -- model of the dim-string parser, jaxtyping/_array_types.py
   `_make_array_cached` lines 376-525 (the part that turns `dim_str` into `dims`
   and `index_variadic`), over ASCII strings.  No proofs here. *)
From JT Require Export model.Base.
Open Scope string_scope.
Open Scope nat_scope.

(* ---------- character classes (ASCII behaviour of str.split / isidentifier / int) *)
Definition is_ws (c : ascii) : bool :=
  let n := nat_of_ascii c in
  ((9 <=? n) && (n <=? 13)) || ((28 <=? n) && (n <=? 32)).
Definition is_digit (c : ascii) : bool :=
  let n := nat_of_ascii c in (48 <=? n) && (n <=? 57).
Definition is_alpha_ (c : ascii) : bool :=
  let n := nat_of_ascii c in
  ((65 <=? n) && (n <=? 90)) || ((97 <=? n) && (n <=? 122)) || (n =? 95).
Definition is_alnum_ (c : ascii) : bool := is_alpha_ c || is_digit c.

Open Scope string_scope.

(* ---------- str.split() with no argument ---------- *)
Definition flush (cur : string) : list string :=
  match cur with EmptyString => [] | _ => [cur] end.

Fixpoint tokens (s : string) (cur : string) : list string :=
  match s with
  | EmptyString => flush cur
  | String c r =>
      if is_ws c then flush cur ++ tokens r EmptyString
      else tokens r (cur ++ String c EmptyString)
  end.

Definition split_ws (s : string) : list string := tokens s EmptyString.

(* ---------- small string predicates used by the whole-token tests ---------- *)
Fixpoint mem_char (c : ascii) (s : string) : bool :=
  match s with EmptyString => false | String d r => Ascii.eqb c d || mem_char c r end.

Fixpoint count_char (c : ascii) (s : string) : nat :=
  match s with
  | EmptyString => 0
  | String d r => (if Ascii.eqb c d then 1 else 0) + count_char c r
  end.

Fixpoint ends_with_char (c : ascii) (s : string) : bool :=
  match s with
  | EmptyString => false
  | String d EmptyString => Ascii.eqb c d
  | String _ r => ends_with_char c r
  end.

Fixpoint has_dots (s : string) : bool :=      (* "..." in s *)
  match s with
  | String "."%char (String "."%char (String "."%char _)) => true
  | String _ r => has_dots r
  | EmptyString => false
  end.

Fixpoint all_chars (p : ascii -> bool) (s : string) : bool :=
  match s with EmptyString => true | String c r => p c && all_chars p r end.

Definition is_identifier (s : string) : bool :=
  match s with
  | EmptyString => false
  | String c r => is_alpha_ c && all_chars is_alnum_ r
  end.

(* int(s) for s without surrounding whitespace: [+-]?[0-9]+(_[0-9]+)*  *)
Fixpoint digits (s : string) (acc : Z) (prev_digit : bool) : option Z :=
  match s with
  | EmptyString => if prev_digit then Some acc else None
  | String c r =>
      if is_digit c then digits r (10 * acc + Z.of_nat (nat_of_ascii c - 48))%Z true
      else if Ascii.eqb c "_"%char then (if prev_digit then digits r acc false else None)
      else None
  end.

Definition parse_int (s : string) : option Z :=
  match s with
  | String "+"%char r => digits r 0%Z false
  | String "-"%char r => option_map Z.opp (digits r 0%Z false)
  | _ => digits s 0%Z false
  end.

(* ---------- the modifier-stripping loop, lines 413-455 ---------- *)
Record flags := mkflags { f_bc : bool; f_var : bool; f_anon : bool; f_tp : bool }.
Definition no_flags := mkflags false false false false.

Inductive stripres := SDone (f : flags) (rest : string) | SErr (code : nat).

(* skip to just after the first '=' *)
Fixpoint after_eq (s : string) : string :=
  match s with
  | EmptyString => EmptyString
  | String c r => if Ascii.eqb c "="%char then r else after_eq r
  end.

(* The loop is structurally recursive on the remaining text: each iteration removes
   the first character, or everything up to and including the single '='.
   Error codes: 4 = `##`, 5 = `**`, 6 = `__`, 7 = `??`. *)
Fixpoint strip (s : string) (f : flags) {struct s} : stripres :=
  match s with
  | EmptyString => SDone f EmptyString
  | String c r =>
      if Ascii.eqb c "#"%char then
        (if f_bc f then SErr 4 else strip r (mkflags true (f_var f) (f_anon f) (f_tp f)))
      else if Ascii.eqb c "*"%char then
        (if f_var f then SErr 5 else strip r (mkflags (f_bc f) true (f_anon f) (f_tp f)))
      else if Ascii.eqb c "_"%char then
        (if f_anon f then SErr 6 else strip r (mkflags (f_bc f) (f_var f) true (f_tp f)))
      else if Ascii.eqb c "?"%char then
        (if f_tp f then SErr 7 else strip r (mkflags (f_bc f) (f_var f) (f_anon f) true))
      else if Nat.eqb (count_char "="%char s) 1 then
        (* `_, elem = elem.split("=")` : continue with the text after the '=' *)
        (if Ascii.eqb c "="%char then strip r f
         else (fix skip (t : string) : stripres :=
                 match t with
                 | EmptyString => SDone f EmptyString   (* unreachable: there is one '=' *)
                 | String d t' => if Ascii.eqb d "="%char then strip t' f else skip t'
                 end) r)
      else SDone f s
  end.

Inductive dimtype := TNamed | TFixed (z : Z) | TSym.

Definition classify (rest : string) : dimtype :=
  match rest with
  | EmptyString => TNamed
  | _ => if is_identifier rest then TNamed
         else match parse_int rest with Some z => TFixed z | None => TSym end
  end.

(* ---------- the parsed dims ---------- *)
Inductive dim :=
| DAnon | DVarAnon
| DNamed (n : string) (bc tp : bool) | DVarNamed (n : string) (bc tp : bool)
| DFixed (z : Z) (bc : bool) | DSym (src : string) (bc : bool).

Definition is_variadic (d : dim) : bool :=
  match d with DVarAnon | DVarNamed _ _ _ => true | _ => false end.

Inductive res (A : Type) := Ok (a : A) | Err (code : nat).
Arguments Ok {A} a. Arguments Err {A} code.

(* whole-token tests 386-407 then the loop; codes: 1 comma, 2 trailing '#', 3 decorated `...` *)
Definition parse_token (elem : string) : res (flags * string * dimtype) :=
  if mem_char ","%char elem && negb (mem_char "("%char elem) then Err 1
  else if ends_with_char "#"%char elem then Err 2
  else if has_dots elem then
    (if String.eqb elem "..." then Ok (mkflags false true true false, elem, TNamed) else Err 3)
  else match strip elem no_flags with
       | SErr c => Err c
       | SDone f rest => Ok (f, rest, classify rest)
       end.

(* lines 466-523; codes: 8 two variadics, 9 `*4`, 10 `_4`, 11 `?4`, 12 `#_`,
   13 `_a+b`, 14 `*a+b`, 15 `?a+b` *)
Definition build_dim (seen_var : bool) (t : flags * string * dimtype) : res dim :=
  let '(f, rest, ty) := t in
  if f_var f && seen_var then Err 8
  else match ty with
       | TFixed z =>
           if f_var f then Err 9 else if f_anon f then Err 10 else if f_tp f then Err 11
           else Ok (DFixed z (f_bc f))
       | TNamed =>
           if f_anon f then
             (if f_bc f then Err 12 else if f_var f then Ok DVarAnon else Ok DAnon)
           else if f_var f then Ok (DVarNamed rest (f_bc f) (f_tp f))
           else Ok (DNamed rest (f_bc f) (f_tp f))
       | TSym =>
           if f_anon f then Err 13 else if f_var f then Err 14 else if f_tp f then Err 15
           else Ok (DSym rest (f_bc f))
       end.

Record dims := mkdims { ds : list dim; ivar : option nat }.

Fixpoint parse_tokens (toks : list string) (index : nat) (iv : option nat) : res (list dim * option nat) :=
  match toks with
  | [] => Ok ([], iv)
  | e :: r =>
      match parse_token e with
      | Err c => Err c
      | Ok t =>
          match build_dim (match iv with Some _ => true | None => false end) t with
          | Err c => Err c
          | Ok d =>
              let iv' := if is_variadic d then Some index else iv in
              match parse_tokens r (S index) iv' with
              | Err c => Err c
              | Ok (dl, ivf) => Ok (d :: dl, ivf)
              end
          end
      end
  end.

Definition parse_dims (s : string) : res dims :=
  match parse_tokens (split_ws s) 0 None with
  | Err c => Err c
  | Ok (dl, iv) => Ok (mkdims dl iv)
  end.

(* ---------- canonical rendering (correspondence) ---------- *)
Definition show_dim (d : dim) : string :=
  match d with
  | DAnon => "anon"
  | DVarAnon => "vanon"
  | DNamed n b t => "named:" ++ n ++ ":" ++ bs b ++ bs t
  | DVarNamed n b t => "vnamed:" ++ n ++ ":" ++ bs b ++ bs t
  | DFixed z b => "fixed:" ++ zs z ++ ":" ++ bs b
  | DSym s b => "sym:" ++ s ++ ":" ++ bs b
  end.

Definition show_ivar (o : option nat) : string :=
  match o with None => "None" | Some n => ns n end.

Definition show_parse (r : res dims) : string :=
  match r with
  | Err c => "ValueError"
  | Ok d => "ok iv=" ++ show_ivar (ivar d) ++ " [" ++ sep_concat " " (map show_dim (ds d)) ++ "]"
  end.

Definition show_parse_code (r : res dims) : string :=
  match r with Err c => "E" ++ ns c | Ok _ => "ok" end.

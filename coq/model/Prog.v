(* Prog.v -- programs of nested decorated calls, context blocks and manual checks (C05).
   jaxtyping/_decorator.py: new-style wrapped_fn 518-545 (bind, push, try: impl finally: pop),
   old-style wrapped_fn 356-377 (bind, push, try: fn finally: pop), _JaxtypingContext 552-557
   (__enter__ pushes, __exit__ pops unconditionally and does not swallow). *)
From JT Require Export model.Wrapper.
Open Scope string_scope.

Inductive exit :=
| XReturn                 (* the body runs to its end and the function returns *)
| XRaise (base : bool)    (* the body ends by raising an Exception / a BaseException that is not one *)
| XGenerator.             (* generator function: the call returns a generator, the body runs when the CALLER iterates it *)

Inductive style :=
| SNew                    (* jaxtyped(typechecker=tc): parameters checked before the body, parameters+return after *)
| SOld                    (* jaxtyped(tc(fn)): the typechecker wrapper runs inside the pushed context *)
| SNone.                  (* jaxtyped(typechecker=None): context only *)
(* dataclass __init__ and methods are SNew on the function object; they differ only in Python plumbing *)

Inductive prog :=
| PCheck (u : annot * value)                       (* manual isinstance(value, annotation) *)
| PObserve                                         (* print_bindings() *)
| PCall (sty : style) (binds : bool) (params : list (annot * value)) (body : list prog) (x : exit)
| PContext (body : list prog) (x : exit)           (* with jaxtyped("context"): body *)
| PTry (body : list prog).                         (* try: body / except BaseException: pass *)

Inductive pevent :=
| EvVerdict (v : verdict)
| EvBindings (m : memo) (depth : nat)
| EvExc (e : exn).           (* an exception caught by PTry *)

Definition sig := option exn.     (* None: normal completion; Some e: e is propagating *)

Definition exit_sig (x : exit) : sig :=
  match x with XReturn | XGenerator => None | XRaise b => Some (if b then BaseExc else OtherExc) end.

Section Run.
Variables (lbl : option string) (st : symtab).

Fixpoint run (p : prog) (s : stack) {struct p} : stack * list pevent * sig :=
  let run_list :=
      fix run_list (ps : list prog) (s : stack) {struct ps} : stack * list pevent * sig :=
        match ps with
        | [] => (s, [], None)
        | p :: r =>
            match run p s with
            | (s1, ev1, None) => let '(s2, ev2, sg) := run_list r s1 in (s2, (ev1 ++ ev2)%list, sg)
            | (s1, ev1, Some e) => (s1, ev1, Some e)
            end
        end in
  match p with
  | PCheck (a, v) =>
      let '(vd, s') := instancecheck false lbl st a v s in
      (s', [EvVerdict vd], match vd with Raise e => Some e | _ => None end)
  | PObserve => (s, [EvBindings (get_memo s) (length s)], None)
  | PCall sty binds params body x =>
      if negb binds then (s, [], Some OtherExc)                       (* TypeError from signature.bind, before push *)
      else
        let s0 := push_memo s [] in
        let finish (r : stack * list pevent * sig) := let '(s1, ev, sg) := r in (pop_memo s1, ev, sg) in
        match sty with
        | SNone =>
            match x with
            | XGenerator => let '(s1, ev, sg) := run_list body (pop_memo s0) in (s1, ev, sg)
            | _ => finish (let '(s1, ev, sg) := run_list body s0 in
                           (s1, ev, match sg with Some e => Some e | None => exit_sig x end))
            end
        | SNew | SOld =>
            match walk lbl st params s0 with
            | (Acc, s1) =>
                match x with
                | XGenerator =>
                    (* the call returns the generator object: the context is popped; the caller then iterates *)
                    run_list body (pop_memo s1)
                | _ => finish (let '(s2, ev, sg) := run_list body s1 in
                               (s2, ev, match sg with Some e => Some e | None => exit_sig x end))
                end
            | (Rej, s1) => (pop_memo s1, [], Some OtherExc)               (* TypeCheckError / the checker's TypeError *)
            | (Raise e, s1) => (pop_memo s1, [], Some (match e with AnnotationErr => AnnotationErr | BaseExc => BaseExc | _ => OtherExc end))
            end
        end
  | PContext body x =>
      let s0 := push_memo s [] in
      let '(s1, ev, sg) := run_list body s0 in
      (pop_memo s1, ev, match sg with Some e => Some e | None => exit_sig x end)
  | PTry body =>
      match run_list body s with
      | (s1, ev, Some e) => (s1, (ev ++ [EvExc e])%list, None)
      | r => r
      end
  end.

Fixpoint run_list (ps : list prog) (s : stack) : stack * list pevent * sig :=
  match ps with
  | [] => (s, [], None)
  | p :: r =>
      match run p s with
      | (s1, ev1, None) => let '(s2, ev2, sg) := run_list r s1 in (s2, (ev1 ++ ev2)%list, sg)
      | (s1, ev1, Some e) => (s1, ev1, Some e)
      end
  end.
End Run.

(* ---------- rendering ---------- *)
Definition show_pevent (e : pevent) : string :=
  match e with
  | EvVerdict v => "v:" ++ show_verdict v
  | EvBindings m d => "b:" ++ ns d ++ ":" ++ show_memo m
  | EvExc e => "x:" ++ show_exn e
  end.

Definition A (s : string) : annot :=
  match parse_dims s with Ok d => mkannot false None d false | Err _ => mkannot false None (mkdims [] None) true end.
Definition V (sh : list Z) : value := mkvalue true true "float32" sh.

Definition run_prog (ps : list prog) : string :=
  let '(s, ev, sg) := run_list None [] ps [] in
  sep_concat " " (map show_pevent ev) ++ " | depth=" ++ ns (length s) ++ " sig=" ++ match sg with None => "-" | Some e => show_exn e end.

(* Check.v -- model of the array check, jaxtyping/_array_types.py:
     _check_dims 122-168, _check_shape 250-318, __instancecheck_str__ 184-248,
   and of the context stack it reads and writes, jaxtyping/_storage.py 26-71.
   Every function returns the memo AS MUTATED so that partial progress is visible.
   No proofs here. *)
From JT Require Export model.Base model.DimLang model.Broadcast model.SymExpr.
Open Scope string_scope.

(* the three dictionaries an array check touches (the fourth, pytree_memo, is copied
   and restored but never read or written by an array check: see PyTreeCheck.v) *)
Record memo := mkmemo {
  single : alist Z;
  variadic : alist (bool * list Z);
  margs : alist Z }.

Definition empty_memo := mkmemo [] [] [].

Inductive cres := COk | CFail | CRaise (e : exn).

Definition symtab := alist expr.

(* ---------------------------------------------------------------- _check_dims *)
(* one iteration of the loop at lines 128-167: continue (with the single-axis memo as
   mutated), fail, or raise *)
Inductive sres := SCont (sm : alist Z) | SFail | SRaise (e : exn).

Definition dkey (lbl : option string) (n : string) (tp : bool) : option string :=
  if tp then option_map (fun l => l ++ n) lbl else Some n.

Definition dim_step (lbl : option string) (st : symtab) (args : alist Z)
           (d : dim) (z : Z) (sm : alist Z) : sres :=
  match d with
  | DAnon => SCont sm
  | DVarAnon | DVarNamed _ _ _ => SRaise OtherExc              (* never passed here *)
  | DFixed n bc =>
      if bc && (z =? 1)%Z then SCont sm
      else if (n =? z)%Z then SCont sm else SFail
  | DSym src bc =>
      if bc && (z =? 1)%Z then SCont sm
      else match aget st src with
           | None => SRaise OtherExc                            (* outside the modelled grammar *)
           | Some e =>
               match eval_sym sm args e with
               | ENameErr => SRaise AnnotationErr
               | EExc => SRaise OtherExc
               | EBaseExc => SRaise BaseExc
               | EVal v => if (v =? z)%Z then SCont sm else SFail
               end
           end
  | DNamed n bc tp =>
      if bc && (z =? 1)%Z then SCont sm
      else
        match dkey lbl n tp with
        | None => SRaise AnnotationErr                          (* `?` outside a structured PyTree *)
        | Some k =>
            match aget sm k with
            | None => SCont (aset sm k z)
            | Some v => if (v =? z)%Z then SCont sm else SFail
            end
        end
  end.

Fixpoint check_dims (lbl : option string) (st : symtab) (args : alist Z)
         (dl : list dim) (sh : list Z) (sm : alist Z) : cres * alist Z :=
  match dl, sh with
  | d :: dl', z :: sh' =>
      match dim_step lbl st args d z sm with
      | SCont sm1 => check_dims lbl st args dl' sh' sm1
      | SFail => (CFail, sm)
      | SRaise e => (CRaise e, sm)
      end
  | _, _ => (COk, sm)
  end.

(* ---------------------------------------------------------------- _check_shape *)
Definition check_variadic (name : string) (bc : bool) (mid : list Z)
           (vm : alist (bool * list Z)) : cres * alist (bool * list Z) :=
  match aget vm name with
  | None => (COk, aset vm name (bc, mid))
  | Some (pbc, ps) =>
      if pbc then
        match bcast mid ps with
        | None => (CFail, vm)
        | Some b =>
            if negb bc && negb (zlist_eqb b mid) then (CFail, vm)
            else (COk, aset vm name (bc, b))
        end
      else if bc then
        match bcast mid ps with
        | None => (CFail, vm)
        | Some b => if zlist_eqb b ps then (COk, vm) else (CFail, vm)
        end
      else if zlist_eqb mid ps then (COk, vm) else (CFail, vm)
  end.

Definition check_shape (lbl : option string) (st : symtab) (d : dims) (sh : list Z) (m : memo)
  : cres * memo :=
  let dl := ds d in
  match ivar d with
  | None =>
      if negb (length sh =? length dl)%nat then (CFail, m)
      else let '(r, sm) := check_dims lbl st (margs m) dl sh (single m) in
           (r, mkmemo sm (variadic m) (margs m))
  | Some i =>
      if (length sh <? length dl - 1)%nat then (CFail, m)
      else
        let k := (length dl - i - 1)%nat in               (* number of suffix axes; j = -k *)
        let '(r1, sm1) := check_dims lbl st (margs m) (firstn i dl) (firstn i sh) (single m) in
        match r1 with
        | COk =>
            let '(r2, sm2) :=
              if (k =? 0)%nat then (COk, sm1)
              else check_dims lbl st (margs m) (skipn (length dl - k) dl) (skipn (length sh - k) sh) sm1 in
            match r2 with
            | COk =>
                let m2 := mkmemo sm2 (variadic m) (margs m) in
                match nth_error dl i with
                | Some DVarAnon => (COk, m2)
                | Some (DVarNamed n bc tp) =>
                    match dkey lbl n tp with
                    | None => (CRaise AnnotationErr, m2)
                    | Some kname =>
                        let mid := firstn (length sh - k - i) (skipn i sh) in
                        let '(r3, vm) := check_variadic kname bc mid (variadic m) in
                        (r3, mkmemo sm2 vm (margs m))
                    end
                | _ => (CRaise OtherExc, m2)              (* assert: index_variadic points at a variadic *)
                end
            | _ => (r2, mkmemo sm2 (variadic m) (margs m))
            end
        | _ => (r1, mkmemo sm1 (variadic m) (margs m))
        end
  end.

(* ---------------------------------------------------------------- values and annotations *)
Record value := mkvalue {
  v_inst : bool;            (* isinstance(obj, array_type) *)
  v_attrs : bool;           (* hasattr(obj,"shape") and hasattr(obj,"dtype") *)
  v_dtype : string;         (* the dtype name extracted by lines 196-211 (Dtype.v) *)
  v_shape : list Z }.

Record annot := mkannot {
  a_any : bool;                       (* array_type is Any *)
  a_dtypes : option (list string);    (* None = _any_dtype (Shaped) *)
  a_dims : dims;
  a_skip : bool }.                    (* _skip_instancecheck *)

Definition dtype_ok (a : annot) (name : string) : bool :=
  match a_dtypes a with
  | None => true
  | Some l => existsb (String.eqb name) l
  end.

(* ---------------------------------------------------------------- the context stack *)
(* _storage.py 26-71: a per-thread stack; outside every context a check works on
   throw-away empty dictionaries *)
Definition stack := list memo.          (* head = top *)

Definition get_memo (s : stack) : memo := match s with m :: _ => m | [] => empty_memo end.
Definition set_memo (s : stack) (m : memo) : stack := match s with _ :: r => m :: r | [] => [] end.
Definition push_memo (s : stack) (args : alist Z) : stack := mkmemo [] [] args :: s.
Definition pop_memo (s : stack) : stack := tl s.

(* ---------------------------------------------------------------- __instancecheck_str__ *)
(* flat = the "only look at the array type" mode used while a PyTree is being flattened;
   the in-place mutation is visible through the stack unless the snapshot is restored:
   restored on CFail and on every exception (`except BaseException` at line 237 since
   the fix commit 6f7f1fa; before it, only subclasses of Exception restored). *)
Definition instancecheck (flat : bool) (lbl : option string) (st : symtab)
           (a : annot) (v : value) (s : stack) : verdict * stack :=
  if a_skip a then (Acc, s)
  else if negb (if a_any a then v_attrs v else v_inst v) then (Rej, s)
  else if flat then (Acc, s)
  else if negb (dtype_ok a (v_dtype v)) then (Rej, s)
  else
    let m := get_memo s in
    let '(r, m') := check_shape lbl st (a_dims a) (v_shape v) m in
    match r with
    | COk => (Acc, set_memo s m')
    | CFail => (Rej, set_memo s m)
    | CRaise e => (Raise e, set_memo s m)
    end.

(* ---------------------------------------------------------------- rendering *)
Definition show_single (sm : alist Z) : string :=
  sep_concat "," (map (fun kv => fst kv ++ "=" ++ zs (snd kv)) sm).
Definition show_variadic (vm : alist (bool * list Z)) : string :=
  sep_concat "," (map (fun kv => fst kv ++ "=" ++ bs (fst (snd kv)) ++ show_zlist (snd (snd kv))) vm).
Definition show_memo (m : memo) : string :=
  "S{" ++ show_single (single m) ++ "} V{" ++ show_variadic (variadic m) ++ "}".

(* a session = one context, a list of checks; the result is one line per check:
   verdict and the memo afterwards *)
Record step := mkstep { s_dim : string; s_any : bool; s_dtypes : option (list string); s_val : value }.

Definition run_step (st : symtab) (stp : step) (s : stack) : string * stack :=
  match parse_dims (s_dim stp) with
  | Err _ => ("ValueError", s)
  | Ok d =>
      let a := mkannot (s_any stp) (s_dtypes stp) d false in
      let '(v, s') := instancecheck false None st a (s_val stp) s in
      (show_verdict v ++ " " ++ show_memo (get_memo s'), s')
  end.

Fixpoint run_steps (st : symtab) (steps : list step) (s : stack) : list string :=
  match steps with
  | [] => []
  | x :: r => let '(o, s') := run_step st x s in o :: run_steps st r s'
  end.

Definition run_session (st : symtab) (args : alist Z) (nocontext : bool) (steps : list step) : string :=
  sep_concat " | " (run_steps st steps (if nocontext then [] else push_memo [] args)).

(* ---------------------------------------------------------------- a walk over several uses *)
(* what a typechecker does with the annotated parameters of one call: isinstance on each
   in turn inside one context, stopping at the first that is not accepted *)
Fixpoint walk (lbl : option string) (st : symtab) (us : list (annot * value)) (s : stack) : verdict * stack :=
  match us with
  | [] => (Acc, s)
  | (a, v) :: r =>
      match instancecheck false lbl st a v s with
      | (Acc, s') => walk lbl st r s'
      | x => x
      end
  end.

(* the verdict of a walk over the uses of one call in a fresh context (C02) *)
Definition run_walk (st : symtab) (steps : list step) : string :=
  let mk stp := match parse_dims (s_dim stp) with
                | Ok d => Some (mkannot (s_any stp) (s_dtypes stp) d false, s_val stp)
                | Err _ => None
                end in
  let fix all (l : list step) : option (list (annot * value)) :=
      match l with
      | [] => Some []
      | x :: r => match mk x, all r with Some u, Some us => Some (u :: us) | _, _ => None end
      end in
  match all steps with
  | None => "ValueError"
  | Some us => show_verdict (fst (walk None st us (push_memo [] [])))
  end.

(* Tree.v -- JAX pytrees as rose trees, treedefs, flattening with is_leaf, and the structure
   algebra used by jaxtyping/_pytree_type.py 127-180 (compose, prefix, suffix).  No proofs here. *)
From JT Require Export model.Base.
Open Scope string_scope.

Inductive kind :=
| KTuple | KList
| KDict (keys : list string)        (* keys in JAX's (sorted) order *)
| KNone
| KNamed (ty : string)              (* namedtuple class *)
| KCustom (ty : string).            (* registered node class *)

Inductive tree (A : Type) := Leaf (a : A) | Node (k : kind) (cs : list (tree A)).
Arguments Leaf {A} a. Arguments Node {A} k cs.

Definition tdef := tree unit.
Definition star : tdef := Leaf tt.

Fixpoint strlist_eqb (a b : list string) : bool :=
  match a, b with
  | [], [] => true
  | x :: a', y :: b' => String.eqb x y && strlist_eqb a' b'
  | _, _ => false
  end.

Definition kind_eqb (a b : kind) : bool :=
  match a, b with
  | KTuple, KTuple | KList, KList | KNone, KNone => true
  | KDict k1, KDict k2 => strlist_eqb k1 k2
  | KNamed t1, KNamed t2 | KCustom t1, KCustom t2 => String.eqb t1 t2
  | _, _ => false
  end.

(* PyTreeDef equality *)
Fixpoint tdef_eqb (a b : tdef) : bool :=
  match a, b with
  | Leaf _, Leaf _ => true
  | Node k cs, Node k' cs' =>
      kind_eqb k k' &&
      (fix go (l l' : list tdef) : bool :=
         match l, l' with [], [] => true | x :: r, y :: r' => tdef_eqb x y && go r r' | _, _ => false end) cs cs'
  | _, _ => false
  end.

(* jtu.tree_structure of a value all of whose non-container objects are leaves *)
Fixpoint structure_of {A} (x : tree A) : tdef :=
  match x with Leaf _ => star | Node k cs => Node k (map structure_of cs) end.

Fixpoint num_leaves {A} (x : tree A) : nat :=
  match x with Leaf _ => 1 | Node _ cs => fold_right (fun c n => num_leaves c + n) 0 cs end.

(* replace every leaf of u by t: what the fold at lines 149-161 builds *)
Fixpoint compose (u t : tdef) : tdef :=
  match u with Leaf _ => t | Node k cs => Node k (map (fun c => compose c t) cs) end.

(* named_pytree = 0; for identifier in pieces: named_pytree = tree_map(lambda _: prev_pytree, named_pytree) *)
Definition compose_impl (pieces : list tdef) : tdef := fold_left compose pieces star.

(* jtu.tree_map over (prefix, x) does not raise: x has p as a prefix *)
Fixpoint is_prefix (p x : tdef) : bool :=
  match p with
  | Leaf _ => true
  | Node k cs =>
      match x with
      | Leaf _ => false
      | Node k' cs' =>
          kind_eqb k k' &&
          (fix go (l l' : list tdef) : bool :=
             match l, l' with [] , [] => true | a :: r, b :: r' => is_prefix a b && go r r' | _, _ => false end) cs cs'
      end
  end.

(* jtu.tree_leaves(x, is_leaf = has structure t): greedy top-down cut *)
Fixpoint cut (t x : tdef) : list tdef :=
  if tdef_eqb x t then [x]
  else match x with
       | Leaf _ => [x]
       | Node k cs => flat_map (cut t) cs
       end.

Definition suffix_check (t x : tdef) : bool := forallb (fun y => tdef_eqb y t) (cut t x).

(* ---------- rendering ---------- *)
Definition show_kind (k : kind) : string :=
  match k with
  | KTuple => "t" | KList => "l" | KNone => "n"
  | KDict ks => "d{" ++ sep_concat "," ks ++ "}"
  | KNamed t => "N" ++ t | KCustom t => "C" ++ t
  end.
Fixpoint show_tdef (t : tdef) : string :=
  match t with
  | Leaf _ => "*"
  | Node k cs => show_kind k ++ "(" ++ sep_concat "," (map show_tdef cs) ++ ")"
  end.

(* Annot.v -- construction of array annotations, jaxtyping/_array_types.py:
   _make_array_cached 527-596 (scalar ladder, nesting), _check_scalar 335-341,
   _MetaAbstractDtype.__getitem__ 633-666 (TypeVar, Union), and the copyreg reducer 325-332. *)
From JT Require Export model.Check.
Open Scope string_scope.

Inductive scalar := KBool | KInt | KFloat | KComplex | KNpBool | KNpGeneric.
Definition scalar_prefix (k : scalar) : string :=
  match k with KBool | KNpBool => "bool" | KInt => "int" | KFloat => "float" | KComplex => "complex" | KNpGeneric => "" end.

Fixpoint sprefix (p s : string) : bool :=        (* s.startswith(p) *)
  match p, s with
  | EmptyString, _ => true
  | String a p', String b s' => Ascii.eqb a b && sprefix p' s'
  | _, EmptyString => false
  end.

(* what a built annotation class carries (the processed information) *)
Record built := mkbuilt {
  b_any : bool;                       (* array_type is Any *)
  b_cls : nat;                        (* otherwise: which array class *)
  b_dtypes : option (list string);    (* None = _any_dtype *)
  b_dims : dims;
  b_dimstr : string;                  (* what it was defined with (kept for the reducer) *)
  b_cat : option (list string) }.     (* x.dtype.dtypes: the category class it was written with *)

Inductive arrty :=
| TClass (id : nat)
| TAny
| TScalar (k : scalar)
| TNested (b : built).

Inductive mres := MBuilt (b : built) | MScalar (k : scalar) | MNotMade | MErr (c : nat).

Definition all_variadic (d : dims) : bool := forallb is_variadic (ds d).

Definition check_scalar (prefix : string) (dtypes : option (list string)) (d : dims) : bool :=
  all_variadic d && match dtypes with None => true | Some l => existsb (sprefix prefix) l end.

Definition smem (s : string) (l : list string) : bool := existsb (String.eqb s) l.

(* error codes: 20 no overlapping dtypes, 21 variadic in both *)
Definition make_array (dtypes : option (list string)) (arr : arrty) (s : string) : mres :=
  match parse_dims s with
  | Err c => MErr c
  | Ok d =>
      match arr with
      | TScalar k => if check_scalar (scalar_prefix k) dtypes d then MScalar k else MNotMade
      | TClass id => MBuilt (mkbuilt false id dtypes d s dtypes)
      | TAny => MBuilt (mkbuilt true 0%nat dtypes d s dtypes)
      | TNested b =>
          let dt := match dtypes, b_dtypes b with
                    | None, x => Some x
                    | Some o, None => Some (Some o)
                    | Some o, Some i => match filter (fun x => smem x i) o with [] => None | l => Some (Some l) end
                    end in
          match dt with
          | None => MErr 20%nat
          | Some dt' =>
              match ivar (b_dims b), ivar d with
              | Some _, Some _ => MErr 21%nat
              | Some i, None => MBuilt (mkbuilt (b_any b) (b_cls b) dt' (mkdims (ds d ++ ds (b_dims b)) (Some (i + length (ds d))%nat)) (s ++ " " ++ b_dimstr b) dtypes)
              | None, iv => MBuilt (mkbuilt (b_any b) (b_cls b) dt' (mkdims (ds d ++ ds (b_dims b)) iv) (s ++ " " ++ b_dimstr b) dtypes)
              end
          end
      end
  end.

(* Dtype[Union[...], s] (a single array type is a one-element list); TypeVars are resolved by the harness/theorems
   into their bound / the union of their constraints / Any, as lines 646-655 do *)
Fixpoint getitem_all (dtypes : option (list string)) (arrs : list arrty) (s : string) : option (list mres) + nat :=
  match arrs with
  | [] => inl (Some [])
  | a :: r =>
      match make_array dtypes a s with
      | MErr c => inr c
      | m => match getitem_all dtypes r s with
             | inr c => inr c
             | inl (Some l) => inl (Some (match m with MNotMade => l | _ => m :: l end))
             | inl None => inl None
             end
      end
  end.

(* 22: "Invalid jaxtyping type annotation" *)
Definition getitem (dtypes : option (list string)) (arrs : list arrty) (s : string) : list mres + nat :=
  match getitem_all dtypes arrs s with
  | inr c => inr c
  | inl (Some []) | inl None => inr 22%nat
  | inl (Some l) => inl l
  end.

(* ---------- checking a value against what was built ---------- *)
Inductive pyv := VArr (cls : nat) (v : value) | VScalar (k : scalar) | VOtherObj.

Definition built_annot (b : built) : annot := mkannot (b_any b) (b_dtypes b) (b_dims b) false.

Definition accepts_one (st : symtab) (m : mres) (x : pyv) (s : stack) : verdict :=
  match m, x with
  | MBuilt b, VArr cls v =>
      fst (instancecheck false None st (built_annot b) (mkvalue (Nat.eqb cls (b_cls b)) (v_attrs v) (v_dtype v) (v_shape v)) s)
  | MBuilt b, _ => Rej
  | MScalar k, VScalar k' => match k, k' with
                             | KBool, KBool | KInt, KInt | KInt, KBool | KFloat, KFloat | KComplex, KComplex
                             | KNpBool, KNpBool | KNpGeneric, KNpBool | KNpGeneric, KNpGeneric => Acc
                             | _, _ => Rej
                             end
  | _, _ => Rej
  end.

(* ---------- the reducer (fix commit 60b840a in /repo):
   _unpickle_array_annotation(x.dtype, x.array_type, x.dim_str, x.dtypes): rebuild from what it was written with,
   then narrow the dtypes when they differ (an annotation built by nesting).  Before the fix the rebuilt
   annotation kept the OUTER category's dtypes. ---------- *)
Fixpoint strlist_eqb (a b : list string) : bool :=
  match a, b with [], [] => true | x :: a', y :: b' => String.eqb x y && strlist_eqb a' b' | _, _ => false end.
Definition odt_eqb (a b : option (list string)) : bool :=
  match a, b with None, None => true | Some x, Some y => strlist_eqb x y | _, _ => false end.

Definition reduce_rebuild (b : built) : mres :=
  match make_array (b_cat b) (if b_any b then TAny else TClass (b_cls b)) (b_dimstr b) with
  | MBuilt o => MBuilt (if odt_eqb (b_dtypes o) (b_dtypes b) then o
                        else mkbuilt (b_any o) (b_cls o) (b_dtypes b) (b_dims o) (b_dimstr o) (b_cat o))
  | x => x
  end.

Definition dims_eqb (a b : dims) : bool := String.eqb (show_parse (Ok a)) (show_parse (Ok b)).
Definition built_same (a b : built) : bool :=
  Bool.eqb (b_any a) (b_any b) && Nat.eqb (b_cls a) (b_cls b) && odt_eqb (b_dtypes a) (b_dtypes b) && dims_eqb (b_dims a) (b_dims b).

Definition show_mres (m : mres) : string :=
  match m with
  | MBuilt b => "built any=" ++ bs (b_any b) ++ " cls=" ++ ns (b_cls b) ++ " dtypes=" ++
                (match b_dtypes b with None => "*" | Some l => sep_concat "," l end) ++ " " ++ show_parse (Ok (b_dims b))
  | MScalar k => "scalar:" ++ scalar_prefix k
  | MNotMade => "notmade"
  | MErr c => "ValueError"
  end.

(* HookCache.v -- bytecode caching under the import hook (jaxtyping/_import_hook.py 69-86, 223-230).
   A module's bytecode is cached under (module, optimisation tag); the jaxtyping loader uses the tag
   `jaxtyping9<hash>` by patching importlib's cache_from_source.  WHERE that patch is active matters:
   around exec_module it is still active while the module body runs, i.e. during nested imports of
   modules that are NOT hooked (they are then cached under the jaxtyping tag although compiled
   uninstrumented); around get_code it covers exactly the hooked module's own cache access.
   The patched method is read from the source on every run (gen/HookConsts.v: cache_patch_method). *)
From JT Require Export model.Base.
Open Scope string_scope.

Inductive ctag := Plain | J (h : string).
Inductive ckind := Uninstr | Instr (h : string).

Definition ctag_eqb (a b : ctag) : bool :=
  match a, b with Plain, Plain => true | J x, J y => String.eqb x y | _, _ => false end.
Definition ckind_eqb (a b : ckind) : bool :=
  match a, b with Uninstr, Uninstr => true | Instr x, Instr y => String.eqb x y | _, _ => false end.

Definition cache := list ((string * ctag) * (nat * ckind)).     (* (module, tag) -> (source version it was compiled from, what was compiled) *)

Fixpoint cget (c : cache) (m : string) (t : ctag) : option (nat * ckind) :=
  match c with
  | [] => None
  | ((m', t'), e) :: r => if String.eqb m m' && ctag_eqb t t' then Some e else cget r m t
  end.
Definition cset (c : cache) (m : string) (t : ctag) (e : nat * ckind) : cache := ((m, t), e) :: c.

(* one run of the interpreter *)
Record runcfg := mkrun {
  r_hooked : alist string;        (* module -> typechecker hash, for the modules matched by a hook in this run *)
  r_src : alist nat;              (* module -> current source version *)
  r_deps : alist (list string);   (* module -> modules its body imports *)
  r_order : list string }.        (* top-level imports, in order *)

Definition src_of (r : runcfg) (m : string) : nat := match aget (r_src r) m with Some v => v | None => 0 end.
Definition deps_of (r : runcfg) (m : string) : list string := match aget (r_deps r) m with Some l => l | None => [] end.

Record rstate := mkrs { rs_cache : cache; rs_done : list (string * (ckind * nat)) (* executed: what, compiled from which version *) }.

Definition is_done (s : rstate) (m : string) : bool := existsb (fun x => String.eqb (fst x) m) (rs_done s).

Section Run.
Variable exec_scope : bool.      (* true: the patch spans exec_module (nested imports see it); false: it spans get_code only *)
Variable r : runcfg.

(* import m while `amb` is the tag installed by an enclosing hooked module's patch (None: importlib's own function) *)
Fixpoint load (fuel : nat) (m : string) (amb : option string) (s : rstate) : rstate :=
  match fuel with
  | O => s
  | S fuel' =>
      if is_done s m then s
      else
        let hk := aget (r_hooked r) m in
        let tag := match hk with Some h => J h | None => match amb with Some h' => J h' | None => Plain end end in
        let fresh := match hk with Some h => Instr h | None => Uninstr end in      (* what the loader in charge compiles *)
        let '(ran, c') :=
          match cget (rs_cache s) m tag with
          | Some (v, k) => if Nat.eqb v (src_of r m) then ((k, v), rs_cache s)      (* cache hit: validated by source mtime/size only *)
                           else ((fresh, src_of r m), cset (rs_cache s) m tag (src_of r m, fresh))
          | None => ((fresh, src_of r m), cset (rs_cache s) m tag (src_of r m, fresh))
          end in
        let s1 := mkrs c' ((m, ran) :: rs_done s) in
        (* the body runs: nested imports *)
        let amb' := if exec_scope then match hk with Some h => Some h | None => amb end else None in
        fold_left (fun st d => load fuel' d amb' st) (deps_of r m) s1
  end.

Definition run_once (c : cache) : rstate :=
  fold_left (fun st m => load (S (length (r_src r))) m None st) (r_order r) (mkrs c []).
End Run.

(* a history of runs over one cache directory *)
Fixpoint run_history (exec_scope : bool) (rs : list runcfg) (c : cache) : list (list (string * (ckind * nat))) :=
  match rs with
  | [] => []
  | r :: rest => let s := run_once exec_scope r c in rev (rs_done s) :: run_history exec_scope rest (rs_cache s)
  end.

(* what the property demands of one executed module *)
Definition expected (r : runcfg) (m : string) : ckind * nat :=
  (match aget (r_hooked r) m with Some h => Instr h | None => Uninstr end, src_of r m).

Definition show_ckind (k : ckind) : string := match k with Uninstr => "plain" | Instr h => "hooked:" ++ h end.
Definition show_done (d : list (string * (ckind * nat))) : string :=
  sep_concat "," (map (fun x => fst x ++ "=" ++ show_ckind (fst (snd x)) ++ "@" ++ ns (snd (snd x))) d).

(* SymExpr.v -- symbolic axis expressions (_array_types.py 137-154).
   The implementation evaluates  eval(f"f'{elem}'", arg_memo)  (stage 1: every
   `{...}` replacement field, left to right, against the call's arguments) and then
   eval(<resulting text>, single_memo)  (stage 2: an arithmetic expression over bound
   axis names).  The model works on the expression's syntax tree; turning source text
   into the tree is done by the harness with Python's own `ast` (grammar of DESIGN.md
   section 3); text outside the grammar is never generated and not claimed. *)
From JT Require Export model.Base.
Open Scope Z_scope.

Inductive binop := OAdd | OSub | OMul | OFloorDiv | OMod.

Inductive expr :=
| EInt (z : Z)
| EVar (n : string)                 (* axis name, looked up in single_memo (stage 2) *)
| EArg (n : string)                 (* {n}: int-valued call argument (stage 1) *)
| ERaise (base : bool)              (* {boom(..)}: user code raising Exception / BaseException (stage 1) *)
| ENeg (e : expr)
| EBin (op : binop) (a b : expr)
| EMin (a b : expr)
| EMax (a b : expr).

Inductive evres := EVal (z : Z) | ENameErr | EExc | EBaseExc.

(* stage 1: replacement fields in textual order; None = all fine *)
Fixpoint stage1 (args : alist Z) (e : expr) : option evres :=
  match e with
  | EInt _ | EVar _ => None
  | EArg n => match aget args n with Some _ => None | None => Some ENameErr end
  | ERaise base => Some (if base then EBaseExc else EExc)
  | ENeg a => stage1 args a
  | EBin _ a b | EMin a b | EMax a b =>
      match stage1 args a with Some r => Some r | None => stage1 args b end
  end.

Definition apply_op (op : binop) (x y : Z) : evres :=
  match op with
  | OAdd => EVal (x + y)
  | OSub => EVal (x - y)
  | OMul => EVal (x * y)
  | OFloorDiv => if y =? 0 then EExc else EVal (x / y)       (* Python //: floor, as Z.div *)
  | OMod => if y =? 0 then EExc else EVal (x mod y)          (* Python %: sign of divisor, as Z.modulo *)
  end.

(* stage 2: left-to-right evaluation; the first error wins *)
Fixpoint stage2 (single args : alist Z) (e : expr) : evres :=
  match e with
  | EInt z => EVal z
  | EVar n => match aget single n with Some z => EVal z | None => ENameErr end
  | EArg n => match aget args n with Some z => EVal z | None => ENameErr end
  | ERaise base => if base then EBaseExc else EExc
  | ENeg a => match stage2 single args a with EVal z => EVal (- z) | r => r end
  | EBin op a b =>
      match stage2 single args a with
      | EVal x => match stage2 single args b with EVal y => apply_op op x y | r => r end
      | r => r
      end
  | EMin a b =>
      match stage2 single args a with
      | EVal x => match stage2 single args b with EVal y => EVal (Z.min x y) | r => r end
      | r => r
      end
  | EMax a b =>
      match stage2 single args a with
      | EVal x => match stage2 single args b with EVal y => EVal (Z.max x y) | r => r end
      | r => r
      end
  end.

Definition eval_sym (single args : alist Z) (e : expr) : evres :=
  match stage1 args e with Some r => r | None => stage2 single args e end.

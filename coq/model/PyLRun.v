(* PyLRun.v -- the generated terms (gen/CheckDimsSrc.v) put together: _check_shape calls _check_dims; runners for the
   correspondence check. *)
From JT Require Export model.PyL gen.CheckDimsSrc.
Open Scope string_scope.

(* the functions _check_shape may call: _check_dims, as translated *)
Definition calls (lbl : option string) (st : symtab) : string -> list pval -> option (pres * list pval) :=
  fun f vs => if String.eqb f "_check_dims" then Some (call_fn lbl st check_dims_params check_dims_src vs) else None.

Definition shape_env (d : dims) (sh : list Z) (m : memo) : penv :=
  upd (upd (upd (upd (upd (fun _ => None) "cls" (VCls (ivar d) (ds d))) "obj" (VObj sh)) "single_memo" (VSingle (single m)))
           "variadic_memo" (VVariadic (variadic m))) "arg_memo" (VArgs (margs m)).

Definition show_shape_outcome (o : outcome) : string :=
  let mem env := match env "single_memo", env "variadic_memo" with
                 | Some (VSingle sm), Some (VVariadic vm) => "S{" ++ show_single sm ++ "} V{" ++ show_variadic vm ++ "}"
                 | _, _ => "?" end in
  match o with
  | OReturn (VS s) env => "ret:" ++ s ++ " " ++ mem env
  | OReturn _ env => "ret:? " ++ mem env
  | ONormal env => "fell-off " ++ mem env
  | ORaise e env => "raise:" ++ show_exn e ++ " " ++ mem env
  end.

Definition run_shape_src (lbl : option string) (st : symtab) (dimstr : string) (sh : list Z) (m : memo) : string :=
  match parse_dims dimstr with
  | Ok d => show_shape_outcome (run_body_with (calls lbl st) lbl st check_shape_src (shape_env d sh m))
  | Err _ => "ValueError"
  end.

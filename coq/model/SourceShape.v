(* SourceShape.v -- the checks of model/Check.v and model/PyTreeCheck.v with their exception-safety STRUCTURE as a
   parameter.  The translator translator/tr_brackets.py reads from the source whether the mutation of the context is
   bracketed by `except BaseException: <restore the four copies>; raise` and by a restore on the mismatch branch
   (gen/Brackets.v: array_check_rolls_back, pytree_check_rolls_back).  With the parameter true these definitions ARE the
   model's (by computation); with it false the in-place mutation of the dictionaries stays visible. *)
From JT Require Export model.Check model.PyTreeCheck.
Open Scope string_scope.

Definition instancecheck_src (rb : bool) (flat : bool) (lbl : option string) (st : symtab)
           (a : annot) (v : value) (s : stack) : verdict * stack :=
  if a_skip a then (Acc, s)
  else if negb (if a_any a then v_attrs v else v_inst v) then (Rej, s)
  else if flat then (Acc, s)
  else if negb (dtype_ok a (v_dtype v)) then (Rej, s)
  else
    let m := get_memo s in
    let '(r, m') := check_shape lbl st (a_dims a) (v_shape v) m in
    match r with
    | COk => (Acc, set_memo s m')
    | CFail => (Rej, set_memo s (if rb then m else m'))
    | CRaise e => (Raise e, set_memo s (if rb then m else m'))
    end.

Section PT.
Variable st : symtab.
Definition pytree_body_src (rb : bool) (l1 : leafty) (structure : option string) (x : ptree) (s : pstore) : verdict * pstore :=
  let snapshot := top_frame s in
  let restore (s' : pstore) := if rb then set_top s' snapshot else s' in
  let '(fl, s1, e) := flatten_with (flat_fn st l1) x (with_flat s true) in
  let s2 := with_flat s1 false in
  match fl with
  | None => (Raise (match e with Some e => e | None => OtherExc end), restore s2)
  | Some (leaves, structure_x) =>
      let '(m, tm) := top_frame s2 in
      let sr := match structure with
                | None => StOk tm
                | Some str => structure_step (read_structure str) structure_x tm
                end in
      match sr with
      | StRaise => (Raise AnnotationErr, restore s2)
      | StNo => (Rej, restore s2)
      | StOk tm' =>
          let s3 := set_top s2 (fst (top_frame s2), tm') in
          let '(vd, s4) := leaf_loop (check_fn st l1) structure leaves 0%nat s3 in
          let s5 := with_path s4 None in
          match vd with
          | Acc => (Acc, s5)
          | _ => (vd, restore s5)
          end
      end
  end.

(* isinstance(x, PyTree[l, structure]) with the rollback structure read from the source *)
Definition pytree_check_src (rb : bool) (l : leafty) (structure : option string) (x : ptree) (s : pstore) : verdict * pstore :=
  match x with Node KNone [] => (Acc, s) | _ => pytree_body_src rb l structure x s end.
End PT.

(* ---------- the transient flags: flatten mode and '?'-leaf position, with their try/finally brackets as parameters ----------
   (the flatten-mode bracket has no counterpart here: in the model the only fault during the flatten phase is a nested
   PyTree check raising, which clears the mode itself; faulting user flatteners are exercised by the harness only)
   fin_path: `try: for leaf: set_treepath_memo(..); if not check: return False; clear_treepath_memo() finally: clear` --
             without the finally the position is cleared only after a leaf that matched. *)
Section Flags.
Variable st : symtab.
Definition pytree_body_flags (fin_path : bool) (l1 : leafty) (structure : option string) (x : ptree) (s : pstore) : verdict * pstore :=
  let snapshot := top_frame s in
  let restore (s' : pstore) := set_top s' snapshot in
  let '(fl, s1, e) := flatten_with (flat_fn st l1) x (with_flat s true) in
  match fl with
  | None => (Raise (match e with Some e => e | None => OtherExc end), restore (with_flat s1 false))
  | Some (leaves, structure_x) =>
      let s2 := with_flat s1 false in
      let '(m, tm) := top_frame s2 in
      let sr := match structure with
                | None => StOk tm
                | Some str => structure_step (read_structure str) structure_x tm
                end in
      match sr with
      | StRaise => (Raise AnnotationErr, restore s2)
      | StNo => (Rej, restore s2)
      | StOk tm' =>
          let s3 := set_top s2 (fst (top_frame s2), tm') in
          let '(vd, s4) := leaf_loop (check_fn st l1) structure leaves 0%nat s3 in
          match vd with
          | Acc => (Acc, with_path s4 None)
          | _ => (vd, restore (if fin_path then with_path s4 None else s4))
          end
      end
  end.

Definition pytree_check_flags (fin_path : bool) (l : leafty) (structure : option string) (x : ptree) (s : pstore) : verdict * pstore :=
  match x with Node KNone [] => (Acc, s) | _ => pytree_body_flags fin_path l structure x s end.
End Flags.

(* ---------- the disabled wrapper: where the test of the switch sits (gen/Brackets.v: disabled_returns_before_push) ---------- *)
From JT Require Export model.Config.
Definition wrapper_trace_src (early : bool) (disabled ntc_fn ntc_wrapper : bool) (c : callinfo) : list event :=
  if early then wrapper_trace disabled ntc_fn ntc_wrapper c
  else if disabled || ntc_fn || ntc_wrapper then
    (* the test placed after signature binding and push: binding errors surface, a context is opened around the body *)
    (if negb (binds c) then [EBind; ETypeError] else [EBind; EPush; EBody; EPop])
  else wrapper_trace disabled ntc_fn ntc_wrapper c.

(* UnionWalk.v -- what a typechecker does with a parameter annotated Union[A1, A2, ...] of array annotations: isinstance against each
   alternative in turn, in the shared context, taking the FIRST that accepts (a rejected alternative leaves no bindings: C04).
   There is no backtracking over alternatives across parameters.  No proofs here. *)
From JT Require Export model.Check.
Open Scope string_scope.

Fixpoint try_alts (lbl : option string) (st : symtab) (alts : list annot) (v : value) (s : stack) : verdict * stack :=
  match alts with
  | [] => (Rej, s)
  | a :: r =>
      match instancecheck false lbl st a v s with
      | (Acc, s') => (Acc, s')
      | (Rej, s') => try_alts lbl st r v s'
      | x => x
      end
  end.

Fixpoint walk_union (lbl : option string) (st : symtab) (us : list (list annot * value)) (s : stack) : verdict * stack :=
  match us with
  | [] => (Acc, s)
  | (alts, v) :: r =>
      match try_alts lbl st alts v s with
      | (Acc, s') => walk_union lbl st r s'
      | x => x
      end
  end.

(* for the correspondence check: every parameter is a list of alternative (dim string, category dtypes) with one value *)
Definition run_walk_union (st : symtab) (steps : list (list step)) : string :=
  let mk stp := match parse_dims (s_dim stp) with
                | Ok d => Some (mkannot (s_any stp) (s_dtypes stp) d false)
                | Err _ => None
                end in
  let fix alts (l : list step) : option (list annot) :=
      match l with
      | [] => Some []
      | x :: r => match mk x, alts r with Some a, Some az => Some (a :: az) | _, _ => None end
      end in
  let fix all (l : list (list step)) : option (list (list annot * value)) :=
      match l with
      | [] => Some []
      | [] :: _ => None
      | (x :: xr) :: r => match alts (x :: xr), all r with Some az, Some us => Some ((az, s_val x) :: us) | _, _ => None end
      end in
  match all steps with
  | None => "ValueError"
  | Some us => show_verdict (fst (walk_union None st us (push_memo [] [])))
  end.

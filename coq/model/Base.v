(* Base.v -- shared vocabulary of every model: Python-dict-like association lists
   (insertion ordered), outcomes, and canonical text rendering used by the
   correspondence check.  No proofs here. *)
From Coq Require Export String Ascii List ZArith Bool.
From Coq Require Import DecimalString.
Export ListNotations.
Open Scope string_scope.

(* ---------- text helpers ---------- *)
Definition zs (z : Z) : string := NilZero.string_of_int (Z.to_int z).
Definition ns (n : nat) : string := zs (Z.of_nat n).
Definition nl : string := String (ascii_of_nat 10) "".
Definition bs (b : bool) : string := if b then "T" else "F".
(* strings given by character codes: lets the harness pass arbitrary ASCII *)
Fixpoint sl (l : list nat) : string :=
  match l with [] => "" | c :: r => String (ascii_of_nat c) (sl r) end.
Definition sep_concat (sep : string) (l : list string) : string := String.concat sep l.
Definition show_zlist (l : list Z) : string := "(" ++ sep_concat "," (map zs l) ++ ")".

(* ---------- Python dict as insertion-ordered association list ---------- *)
Definition alist (V : Type) := list (string * V).

Fixpoint aget {V} (m : alist V) (k : string) : option V :=
  match m with
  | [] => None
  | (k', v) :: r => if String.eqb k k' then Some v else aget r k
  end.

(* d[k] = v : keeps the position of an existing key, appends a new one *)
Fixpoint aset {V} (m : alist V) (k : string) (v : V) : alist V :=
  match m with
  | [] => [(k, v)]
  | (k', v') :: r => if String.eqb k k' then (k', v) :: r else (k', v') :: aset r k v
  end.

Definition amem {V} (m : alist V) (k : string) : bool :=
  match aget m k with Some _ => true | None => false end.

Definition akeys {V} (m : alist V) : list string := map fst m.

(* ---------- outcomes ---------- *)
(* exception classes that matter to the properties *)
Inductive exn :=
| AnnotationErr      (* jaxtyping.AnnotationError *)
| ValueErr           (* ValueError *)
| OtherExc           (* some other subclass of Exception (ZeroDivisionError, user RuntimeError ...) *)
| BaseExc.           (* a BaseException that is not an Exception *)

Definition exn_eqb (a b : exn) : bool :=
  match a, b with
  | AnnotationErr, AnnotationErr | ValueErr, ValueErr | OtherExc, OtherExc | BaseExc, BaseExc => true
  | _, _ => false
  end.

Definition show_exn (e : exn) : string :=
  match e with AnnotationErr => "AnnotationError" | ValueErr => "ValueError"
             | OtherExc => "Exception" | BaseExc => "BaseException" end.

(* verdict of a check: accepted, rejected (the implementation returns False / a
   non-empty message), or raised *)
Inductive verdict := Acc | Rej | Raise (e : exn).

Definition show_verdict (v : verdict) : string :=
  match v with Acc => "acc" | Rej => "rej" | Raise e => "raise:" ++ show_exn e end.

Definition verdict_eqb (a b : verdict) : bool :=
  match a, b with
  | Acc, Acc | Rej, Rej => true
  | Raise x, Raise y => exn_eqb x y
  | _, _ => false
  end.

Definition is_exception_subclass (e : exn) : bool :=
  match e with BaseExc => false | _ => true end.

(* PyTreeCheck.v -- model of jaxtyping/_pytree_type.py:
     __instancecheck__ 64-92 (snapshot, rollback), _check 94-195 (leaf discovery with is_leaf,
     structure names, composite / prefix / suffix, per-leaf check with the tree-path label),
     __getitem__ 204-239 (validation of the structure string),
   with the vendored typeguard restricted to the leaf types below.  No proofs here. *)
From JT Require Export model.Check model.Tree.
Open Scope string_scope.

(* ---------- values ---------- *)
Inductive pyval := PInt (z : Z) | PBool (b : bool) | PStr (s : string) | PArr (v : value) | PObj.
Definition ptree := tree pyval.

(* ---------- the structure string ---------- *)
Inductive sspec :=
| SName (n : string)                                  (* a single identifier: bind / compare *)
| SComp (prefix suffix : bool) (names : list string). (* composite, `T ...` (prefix) or `... T` (suffix) *)

Definition is_dots (s : string) : bool := String.eqb s "...".

(* lines 213-245: non-empty; not `...` at both ends (a lone `...` included: fix commit in /repo);
   every piece an identifier, except that the first or the last may be `...` *)
Definition validate_structure (s : string) : bool :=
  let pieces := split_ws s in
  match pieces with
  | [] => false
  | p0 :: _ =>
      negb (is_dots p0 && is_dots (last pieces "")) &&
      (fix go (l : list string) (idx : nat) : bool :=
         match l with
         | [] => true
         | p :: r =>
             (if ((idx =? 0)%nat || (idx =? length pieces - 1)%nat) && is_dots p then true else is_identifier p)
             && go r (S idx)
         end) pieces 0%nat
  end.

(* lines 127-147: how _check reads the (stripped) string *)
Definition read_structure (s : string) : sspec :=
  if is_identifier s then SName s
  else
    let pieces := split_ws s in
    match pieces with
    | [] => SComp false false []
    | p0 :: rest =>
        if is_dots p0 then SComp false true rest
        else if is_dots (last pieces "") then SComp true false (removelast pieces)
        else SComp false false pieces
    end.

(* ---------- leaf types (the fragment of typing the vendored typeguard is modelled for) ---------- *)
Inductive leafty :=
| LInt | LStr | LAny
| LTuple (ls : list leafty)
| LUnion (ls : list leafty)
| LArr (a : annot)
| LPyTreeBare
| LPyTree (l : leafty) (structure : option string).

(* ---------- the store: context stack with structure bindings, tree-path label, flatten flag ---------- *)
Record pstore := mkps {
  ps_stack : list (memo * alist tdef);
  ps_path : option string;          (* _treepath_storage.value *)
  ps_flat : bool }.                 (* _treeflatten_storage.value *)

Definition top_frame (s : pstore) : memo * alist tdef :=
  match ps_stack s with f :: _ => f | [] => (empty_memo, []) end.
Definition set_top (s : pstore) (f : memo * alist tdef) : pstore :=
  match ps_stack s with _ :: r => mkps (f :: r) (ps_path s) (ps_flat s) | [] => s end.
Definition with_path (s : pstore) (p : option string) : pstore := mkps (ps_stack s) p (ps_flat s).
Definition with_flat (s : pstore) (b : bool) : pstore := mkps (ps_stack s) (ps_path s) b.

(* an array annotation checked through the store: flatten mode and tree-path label come from it *)
Definition arr_check (st : symtab) (a : annot) (v : value) (s : pstore) : verdict * pstore :=
  let '(m, t) := top_frame s in
  match ps_stack s with
  | [] => let '(vd, _) := instancecheck (ps_flat s) (ps_path s) st a v [] in (vd, s)
  | _ => let '(vd, s') := instancecheck (ps_flat s) (ps_path s) st a v [m] in
         (vd, set_top s (get_memo s', t))
  end.

Definition not_array : value := mkvalue false false "" [].

(* set_treepath_memo: AnnotationError when a label is already set (nested structured PyTrees) *)
Definition label_of (i : nat) (structure : string) : string :=
  "(Leaf " ++ ns i ++ " in structure " ++ structure ++ ") ".

Section Check.
Variable st : symtab.

(* jtu.tree_flatten(obj, is_leaf): is_leaf is consulted top-down on every node (None included);
   it may change the store and may raise.  Result: leaves with the treedef, or the exception. *)
Section Flatten.
Variable isleaf : ptree -> pstore -> verdict * pstore.
Fixpoint flatten_with (x : ptree) (s : pstore) : option (list ptree * tdef) * pstore * option exn :=
  match isleaf x s with
  | (Raise e, s1) => (None, s1, Some e)
  | (Acc, s1) => (Some ([x], star), s1, None)
  | (Rej, s1) =>
      match x with
      | Leaf _ => (Some ([x], star), s1, None)
      | Node k cs =>
          let '(r, s2, e) :=
            (fix go (l : list ptree) (s : pstore) : option (list ptree * list tdef) * pstore * option exn :=
               match l with
               | [] => (Some ([], []), s, None)
               | c :: r =>
                   match flatten_with c s with
                   | (Some (lv, d), s', _) =>
                       match go r s' with
                       | (Some (lvs, ds), s'', e) => (Some ((lv ++ lvs)%list, d :: ds), s'', e)
                       | (None, s'', e) => (None, s'', e)
                       end
                   | (None, s', e) => (None, s', e)
                   end
               end) cs s1 in
          match r with
          | Some (lvs, ds) => (Some (lvs, Node k ds), s2, e)
          | None => (None, s2, e)
          end
      end
  end.
(* the same recursion over a list of children, as a function of its own (convertible with the local one) *)
Fixpoint flatten_list (l : list ptree) (s : pstore) : option (list ptree * list tdef) * pstore * option exn :=
  match l with
  | [] => (Some ([], []), s, None)
  | c :: r =>
      match flatten_with c s with
      | (Some (lv, d), s', _) =>
          match flatten_list r s' with
          | (Some (lvs, ds), s'', e) => (Some ((lv ++ lvs)%list, d :: ds), s'', e)
          | (None, s'', e) => (None, s'', e)
          end
      | (None, s', e) => (None, s', e)
      end
  end.
End Flatten.

(* structure handling, lines 126-180; works on the structure-name memo of the top frame *)
Inductive stres := StOk (tm : alist tdef) | StNo | StRaise.

Definition lookup_all (tm : alist tdef) (names : list string) : option (list tdef) :=
  (fix go (l : list string) : option (list tdef) :=
     match l with
     | [] => Some []
     | n :: r => match aget tm n, go r with Some d, Some ds => Some (d :: ds) | _, _ => None end
     end) names.

Definition structure_step (spec : sspec) (structure : tdef) (tm : alist tdef) : stres :=
  match spec with
  | SName n =>
      match aget tm n with
      | None => StOk (aset tm n structure)
      | Some prev => if tdef_eqb prev structure then StOk tm else StNo
      end
  | SComp pre suf names =>
      match lookup_all tm names with
      | None => StRaise                                   (* AnnotationError: name not seen before *)
      | Some ds =>
          let named := compose_impl ds in
          if pre then (if is_prefix named structure then StOk tm else StNo)
          else if suf then (if suffix_check named structure then StOk tm else StNo)
          else (if tdef_eqb structure named then StOk tm else StNo)
      end
  end.

(* typeguard's check of one value against a leaf type (TypeError -> Rej), and the PyTree check;
   structurally recursive on the leaf type *)
Fixpoint leafmatch (l : leafty) (x : ptree) (s : pstore) {struct l} : verdict * pstore :=
  match l with
  | LInt => (match x with Leaf (PInt _) | Leaf (PBool _) => Acc | _ => Rej end, s)
  | LStr => (match x with Leaf (PStr _) => Acc | _ => Rej end, s)
  | LAny => (Acc, s)
  | LTuple ls =>
      match x with
      | Node KTuple cs | Node (KNamed _) cs =>
          (fix go (ls : list leafty) (cs : list ptree) (s : pstore) : verdict * pstore :=
             match ls, cs with
             | [], [] => (Acc, s)
             | l1 :: lr, c :: cr =>
                 match leafmatch l1 c s with
                 | (Acc, s1) => go lr cr s1
                 | r => r
                 end
             | _, _ => (Rej, s)
             end) ls cs s
      | _ => (Rej, s)
      end
  | LUnion ls =>
      (fix go (ls : list leafty) (s : pstore) : verdict * pstore :=
         match ls with
         | [] => (Rej, s)
         | l1 :: lr =>
             match leafmatch l1 x s with
             | (Rej, s1) => go lr s1
             | r => r
             end
         end) ls s
  | LArr a =>
      match x with
      | Leaf (PArr v) => arr_check st a v s
      | _ => arr_check st a not_array s
      end
  | LPyTreeBare => (Acc, s)
  | LPyTree l1 structure =>
      match x with
      | Node KNone [] => (Acc, s)                                   (* `if obj is None: return True` *)
      | _ =>
          let snapshot := top_frame s in
          let restore (s' : pstore) := set_top s' snapshot in
          (* _check *)
          let isflat := match l1 with LAny => (fun _ s => (Rej, s)) | _ => leafmatch l1 end in
          let ischeck := match l1 with LAny => (fun _ s => (Acc, s)) | _ => leafmatch l1 end in
          let '(fl, s1, e) := flatten_with isflat x (with_flat s true) in
          let s2 := with_flat s1 false in                            (* finally: clear_treeflatten_memo() *)
          match fl with
          | None => (Raise (match e with Some e => e | None => OtherExc end), restore s2)
          | Some (leaves, structure_x) =>
              let '(m, tm) := top_frame s2 in
              let sr := match structure with
                        | None => StOk tm
                        | Some str => structure_step (read_structure str) structure_x tm
                        end in
              match sr with
              | StRaise => (Raise AnnotationErr, restore s2)
              | StNo => (Rej, restore s2)
              | StOk tm' =>
                  let s3 := set_top s2 (fst (top_frame s2), tm') in
                  (* the leaf loop, 183-193; `finally: clear_treepath_memo()` *)
                  let '(vd, s4) :=
                    (fix loop (lv : list ptree) (i : nat) (s : pstore) : verdict * pstore :=
                       match lv with
                       | [] => (Acc, s)
                       | leaf :: r =>
                           match structure, ps_path s with
                           | Some _, Some _ => (Raise AnnotationErr, s)          (* ambiguous: already inside a structured PyTree *)
                           | _, _ =>
                               let s' := match structure with Some str => with_path s (Some (label_of i str)) | None => s end in
                               match ischeck leaf s' with
                               | (Acc, s'') => loop r (S i) (with_path s'' None)
                               | (vd, s'') => (vd, s'')
                               end
                           end
                       end) leaves 0%nat s3 in
                  let s5 := with_path s4 None in
                  match vd with
                  | Acc => (Acc, s5)
                  | _ => (vd, restore s5)
                  end
              end
          end
      end
  end.

(* the local recursions of leafmatch as functions of their own (convertible with the local ones) *)
Fixpoint tuple_match (ls : list leafty) (cs : list ptree) (s : pstore) : verdict * pstore :=
  match ls, cs with
  | [], [] => (Acc, s)
  | l1 :: lr, c :: cr => match leafmatch l1 c s with (Acc, s1) => tuple_match lr cr s1 | r => r end
  | _, _ => (Rej, s)
  end.

Section Union.
Variable x : ptree.
Fixpoint union_match (ls : list leafty) (s : pstore) : verdict * pstore :=
  match ls with
  | [] => (Rej, s)
  | l1 :: lr => match leafmatch l1 x s with (Rej, s1) => union_match lr s1 | r => r end
  end.
End Union.

Section Loop.
Variables (ischeck : ptree -> pstore -> verdict * pstore) (structure : option string).
Fixpoint leaf_loop (lv : list ptree) (i : nat) (s : pstore) : verdict * pstore :=
  match lv with
  | [] => (Acc, s)
  | leaf :: r =>
      match structure, ps_path s with
      | Some _, Some _ => (Raise AnnotationErr, s)
      | _, _ =>
          let s' := match structure with Some str => with_path s (Some (label_of i str)) | None => s end in
          match ischeck leaf s' with
          | (Acc, s'') => leaf_loop r (S i) (with_path s'' None)
          | (vd, s'') => (vd, s'')
          end
      end
  end.
End Loop.

Definition flat_fn (l1 : leafty) : ptree -> pstore -> verdict * pstore :=
  match l1 with LAny => (fun _ s => (Rej, s)) | _ => leafmatch l1 end.
Definition check_fn (l1 : leafty) : ptree -> pstore -> verdict * pstore :=
  match l1 with LAny => (fun _ s => (Acc, s)) | _ => leafmatch l1 end.

(* the body of the PyTree case of leafmatch (everything after the `obj is None` shortcut) *)
Definition pytree_body (l1 : leafty) (structure : option string) (x : ptree) (s : pstore) : verdict * pstore :=
  let snapshot := top_frame s in
  let restore (s' : pstore) := set_top s' snapshot in
  let '(fl, s1, e) := flatten_with (flat_fn l1) x (with_flat s true) in
  let s2 := with_flat s1 false in
  match fl with
  | None => (Raise (match e with Some e => e | None => OtherExc end), restore s2)
  | Some (leaves, structure_x) =>
      let '(m, tm) := top_frame s2 in
      let sr := match structure with
                | None => StOk tm
                | Some str => structure_step (read_structure str) structure_x tm
                end in
      match sr with
      | StRaise => (Raise AnnotationErr, restore s2)
      | StNo => (Rej, restore s2)
      | StOk tm' =>
          let s3 := set_top s2 (fst (top_frame s2), tm') in
          let '(vd, s4) := leaf_loop (check_fn l1) structure leaves 0%nat s3 in
          let s5 := with_path s4 None in
          match vd with
          | Acc => (Acc, s5)
          | _ => (vd, restore s5)
          end
      end
  end.

End Check.

(* isinstance(x, PyTree[l, structure]) *)
Definition pytree_check (st : symtab) (l : leafty) (structure : option string) (x : ptree) (s : pstore) : verdict * pstore :=
  leafmatch st (LPyTree l structure) x s.

(* ---------- rendering ---------- *)
Definition show_structs (tm : alist tdef) : string :=
  sep_concat "," (map (fun kv => fst kv ++ "=" ++ show_tdef (snd kv)) tm).
Definition show_pstore (s : pstore) : string :=
  let '(m, tm) := top_frame s in
  show_memo m ++ " T{" ++ show_structs tm ++ "} path=" ++ (match ps_path s with None => "-" | Some p => p end) ++ " flat=" ++ bs (ps_flat s).

(* ---------- sessions: one context, a list of array and PyTree checks ---------- *)
Inductive pstep :=
| PSArr (a : annot) (v : value)
| PSTree (l : option leafty) (structure : option string) (x : ptree).     (* None: bare PyTree *)

Definition run_pstep (st : symtab) (p : pstep) (s : pstore) : verdict * pstore :=
  match p with
  | PSArr a v => arr_check st a v s
  | PSTree None _ x => (Acc, s)
  | PSTree (Some l) structure x => pytree_check st l structure x s
  end.

Fixpoint run_psteps (st : symtab) (ps : list pstep) (s : pstore) : list string :=
  match ps with
  | [] => []
  | p :: r => let '(vd, s') := run_pstep st p s in
              (show_verdict vd ++ " " ++ show_pstore s') :: run_psteps st r s'
  end.

Definition run_psession (st : symtab) (nocontext : bool) (ps : list pstep) : string :=
  sep_concat " | " (run_psteps st ps (mkps (if nocontext then [] else [(empty_memo, [])]) None false)).

Definition AC (dtypes : option (list string)) (s : string) : annot :=
  match parse_dims s with Ok d => mkannot false dtypes d false | Err _ => mkannot false dtypes (mkdims [] None) true end.
Definition ACany (dtypes : option (list string)) (s : string) : annot :=
  match parse_dims s with Ok d => mkannot true dtypes d false | Err _ => mkannot true dtypes (mkdims [] None) true end.

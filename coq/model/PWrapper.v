(* PWrapper.v -- the new-style decorator's checking path (jaxtyping/_decorator.py wrapped_fn_impl and
   _get_problem_arg) when parameters may also be PyTree-annotated: model/Wrapper.v over the PyTree store.
   A use is a `pstep` of model/PyTreeCheck.v: an array check or a PyTree[L, structure] check. *)
From JT Require Export model.PyTreeCheck model.Wrapper.
Open Scope string_scope.

Inductive pcallres :=
| PCOk
| PCTypeCheck (stg : stage) (blamed : option nat) (frame : memo * alist tdef)   (* axis and structure bindings listed *)
| PCRaise (e : exn).

Section PW.
Variable st : symtab.

Fixpoint pwalk (us : list pstep) (s : pstore) : verdict * pstore :=
  match us with
  | [] => (Acc, s)
  | u :: r => match run_pstep st u s with (Acc, s') => pwalk r s' | x => x end
  end.

Fixpoint pproblem (us : list pstep) (idx : nat) (s : pstore) : pres * pstore :=
  match us with
  | [] => (PBlame None, s)
  | u :: r =>
      match run_pstep st u s with
      | (Acc, s') => pproblem r (S idx) s'
      | (Rej, s') => (PBlame (Some idx), s')
      | (Raise e, s') => if is_exception_subclass e then (PBlame (Some idx), s') else (PRaise e, s')
      end
  end.

Definition pcall_new (params : list pstep) (ret : option pstep) (s0 : pstore) : pcallres * pstore :=
  let on_param_failure s1 :=
      match pproblem params 0 s1 with
      | (PBlame k, s2) => (PCTypeCheck SParams k (top_frame s2), s2)
      | (PRaise e, s2) => (PCRaise e, s2)
      end in
  match pwalk params s0 with
  | (Acc, s1) =>
      match ret with
      | None => (PCOk, s1)
      | Some r =>
          match pwalk (params ++ [r]) s1 with
          | (Acc, s2) => (PCOk, s2)
          | (Rej, s2) => (PCTypeCheck SReturn None (top_frame s2), s2)
          | (Raise e, s2) => if converted e then (PCTypeCheck SReturn None (top_frame s2), s2) else (PCRaise e, s2)
          end
      end
  | (Rej, s1) => on_param_failure s1
  | (Raise e, s1) => if converted e then on_param_failure s1 else (PCRaise e, s1)
  end.
End PW.

Definition show_pcallres (r : pcallres) : string :=
  match r with
  | PCOk => "ok"
  | PCTypeCheck stg k (m, tm) =>
      "TypeCheckError " ++ (match stg with SParams => "params" | SReturn => "return" end) ++
      " blamed=" ++ (match k with None => "-" | Some i => ns i end) ++ " " ++ show_memo m ++ " T{" ++ show_structs tm ++ "}"
  | PCRaise e => "raise:" ++ show_exn e
  end.

(* a call: the wrapper has pushed a fresh frame holding the call's arguments *)
Definition run_pcall (st : symtab) (args : alist Z) (params : list pstep) (ret : option pstep) : string :=
  show_pcallres (fst (pcall_new st params ret (mkps [(mkmemo [] [] args, [])] None false))).

(* Wrapper.v -- the new-style decorator's checking path, jaxtyping/_decorator.py 421-515
   (wrapped_fn_impl) and 700-748 (_get_problem_arg), on top of the check model.
   The context has already been pushed (wrapped_fn, 536-545); the caller pops. *)
From JT Require Export model.Check.
Open Scope string_scope.

Inductive stage := SParams | SReturn.

Inductive callres :=
| CROk
| CRTypeCheck (stg : stage) (blamed : option nat) (bind : memo)   (* jaxtyping.TypeCheckError *)
| CRRaise (e : exn).                                              (* propagates unchanged *)

(* `except AnnotationError: raise / except Exception: ...`: which exceptions of a check are
   turned into a TypeCheckError *)
Definition converted (e : exn) : bool :=
  match e with OtherExc | ValueErr => true | AnnotationErr | BaseExc => false end.

(* _get_problem_arg: one parameter at a time, in declaration order, in the SAME context;
   `except Exception` there also catches AnnotationError *)
Inductive pres := PBlame (k : option nat) | PRaise (e : exn).

Fixpoint problem_arg (lbl : option string) (st : symtab) (us : list (annot * value)) (idx : nat) (s : stack)
  : pres * stack :=
  match us with
  | [] => (PBlame None, s)
  | (a, v) :: r =>
      match instancecheck false lbl st a v s with
      | (Acc, s') => problem_arg lbl st r (S idx) s'
      | (Rej, s') => (PBlame (Some idx), s')
      | (Raise e, s') => if is_exception_subclass e then (PBlame (Some idx), s') else (PRaise e, s')
      end
  end.

Definition call_new (lbl : option string) (st : symtab) (params : list (annot * value))
           (ret : option (annot * value)) (s0 : stack) : callres * stack :=
  let on_param_failure s1 :=
      match problem_arg lbl st params 0 s1 with
      | (PBlame k, s2) => (CRTypeCheck SParams k (get_memo s2), s2)
      | (PRaise e, s2) => (CRRaise e, s2)
      end in
  match walk lbl st params s0 with
  | (Acc, s1) =>
      (* the body runs here *)
      match ret with
      | None => (CROk, s1)
      | Some r =>
          match walk lbl st (params ++ [r]) s1 with
          | (Acc, s2) => (CROk, s2)
          | (Rej, s2) => (CRTypeCheck SReturn None (get_memo s2), s2)
          | (Raise e, s2) => if converted e then (CRTypeCheck SReturn None (get_memo s2), s2) else (CRRaise e, s2)
          end
      end
  | (Rej, s1) => on_param_failure s1
  | (Raise e, s1) => if converted e then on_param_failure s1 else (CRRaise e, s1)
  end.

(* ---------- rendering ---------- *)
Definition show_callres (r : callres) : string :=
  match r with
  | CROk => "ok"
  | CRTypeCheck stg k m =>
      "TypeCheckError " ++ (match stg with SParams => "params" | SReturn => "return" end) ++
      " blamed=" ++ (match k with None => "-" | Some i => ns i end) ++ " " ++ show_memo m
  | CRRaise e => "raise:" ++ show_exn e
  end.

Definition run_call (st : symtab) (args : alist Z) (params : list step) (ret : option step) : string :=
  let mk stp := match parse_dims (s_dim stp) with
                | Ok d => Some (mkannot (s_any stp) (s_dtypes stp) d false, s_val stp)
                | Err _ => None
                end in
  let fix all (l : list step) : option (list (annot * value)) :=
      match l with
      | [] => Some []
      | x :: r => match mk x, all r with Some u, Some us => Some (u :: us) | _, _ => None end
      end in
  match all params, match ret with None => Some None | Some r => option_map Some (mk r) end with
  | Some us, Some r => show_callres (fst (call_new None st us r (push_memo [] args)))
  | _, _ => "ValueError"
  end.

(* HookScope.v -- which modules the import hook instruments (jaxtyping/_import_hook.py:
   _JaxtypingFinder.should_instrument 256-268, find_spec 245-254, install_import_hook 392-412,
   ImportHookManager.uninstall 280-284) over a small machine for sys.meta_path / sys.modules. *)
From JT Require Export model.Base.
Open Scope string_scope.

Fixpoint starts_with (p s : string) : bool :=
  match p, s with
  | EmptyString, _ => true
  | String a p', String b s' => Ascii.eqb a b && starts_with p' s'
  | _, EmptyString => false
  end.

(* module_name == module or module_name.startswith(module + ".") *)
Definition matches_name (m n : string) : bool := String.eqb m n || starts_with (n ++ ".") m.
Definition should_instrument (names : list string) (m : string) : bool := existsb (matches_name m) names.

(* dotted components: "a.b.c" -> ["a"; "b"; "c"], "" -> [""] *)
Fixpoint comps_aux (s cur : string) : list string :=
  match s with
  | EmptyString => [cur]
  | String c r => if Ascii.eqb c "."%char then cur :: comps_aux r "" else comps_aux r (cur ++ String c "")
  end.
Definition comps (s : string) : list string := comps_aux s "".

Fixpoint is_list_prefix (p l : list string) : bool :=
  match p, l with
  | [], _ => true
  | a :: p', b :: l' => String.eqb a b && is_list_prefix p' l'
  | _, [] => false
  end.

(* ---------- the machine ---------- *)
Record hook := mkhook { h_id : nat; h_names : list string; h_chk : option string }.

(* what a loaded module is: None = loaded unmodified; Some c = instrumented with typechecker string c
   (Some None = typechecker=None) *)
Definition tag := option (option string).

Record hstate := mkhs { meta : list hook;            (* jaxtyping finders in sys.meta_path, head consulted first *)
                        loaded : alist tag;           (* sys.modules (only the forest's modules) *)
                        next_id : nat }.
Definition hs0 := mkhs [] [] 0.

Inductive hop :=
| Install (names : list string) (chk : option string)   (* handle = value of next_id at that moment *)
| Uninstall (id : nat)
| Import (m : string).

Fixpoint first_match (hs : list hook) (m : string) : tag :=
  match hs with
  | [] => None
  | h :: r => if should_instrument (h_names h) m then Some (h_chk h) else first_match r m
  end.

(* all dotted ancestors, outermost first, the module itself last: "a.b.c" -> ["a"; "a.b"; "a.b.c"] *)
Fixpoint ancestors_aux (cs : list string) (pre : string) : list string :=
  match cs with
  | [] => []
  | c :: r => let p := if String.eqb pre "" then c else pre ++ "." ++ c in p :: ancestors_aux r p
  end.
Definition ancestors (m : string) : list string := ancestors_aux (comps m) "".

Definition import_one (s : hstate) (m : string) : hstate :=
  match aget (loaded s) m with
  | Some _ => s                                                  (* already in sys.modules: untouched *)
  | None => mkhs (meta s) (aset (loaded s) m (first_match (meta s) m)) (next_id s)
  end.

Fixpoint remove_first_id (id : nat) (hs : list hook) : list hook :=
  match hs with [] => [] | h :: r => if Nat.eqb (h_id h) id then r else h :: remove_first_id id r end.

Definition hstep (s : hstate) (o : hop) : hstate :=
  match o with
  | Install names chk => mkhs (mkhook (next_id s) names chk :: meta s) (loaded s) (S (next_id s))
  | Uninstall id => mkhs (remove_first_id id (meta s)) (loaded s) (next_id s)
  | Import m => fold_left import_one (ancestors m) s
  end.

Definition hrun (ops : list hop) (s : hstate) : hstate := fold_left hstep ops s.

Definition show_tag (t : tag) : string :=
  match t with None => "plain" | Some None => "hooked:None" | Some (Some c) => "hooked:" ++ c end.
Definition show_loaded (s : hstate) : string :=
  sep_concat "," (map (fun kv => fst kv ++ "=" ++ show_tag (snd kv)) (loaded s)).

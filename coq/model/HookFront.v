(* HookFront.v -- the two other front ends of the import hook:
   - the pytest option (jaxtyping/_pytest_plugin.py: pytest_configure): `--jaxtyping-packages=a,b,checker`
     is split at commas, every item stripped, the LAST item is the typechecker, the others are the names given to
     install_import_hook; a name that is already imported makes the configuration fail;
   - the IPython magic (jaxtyping/_ipython_extension.py): `%jaxtyping.typechecker c` removes every
     JaxtypingTransformer from shell.ast_transformers and appends one for c; a cell is transformed by every
     transformer in order. *)
From JT Require Export model.HookScope.
Open Scope string_scope.

(* ---------- str.split(",") and str.strip() ---------- *)
Fixpoint split_aux (sep : ascii) (s cur : string) : list string :=
  match s with
  | EmptyString => [cur]
  | String c r => if Ascii.eqb c sep then cur :: split_aux sep r "" else split_aux sep r (cur ++ String c "")
  end.
Definition split_on (sep : ascii) (s : string) : list string := split_aux sep s "".

(* ASCII whitespace as str.strip() sees it: \t \n \v \f \r, \x1c-\x1f and space *)
Definition is_ws (c : ascii) : bool :=
  let n := nat_of_ascii c in (Nat.leb 9 n && Nat.leb n 13) || (Nat.leb 28 n && Nat.leb n 32).
Fixpoint lstrip (s : string) : string :=
  match s with String c r => if is_ws c then lstrip r else s | EmptyString => EmptyString end.
(* rstrip: drop the maximal all-whitespace suffix *)
Fixpoint rstrip (s : string) : string :=
  match s with
  | EmptyString => EmptyString
  | String c r => match rstrip r with
                  | EmptyString => if is_ws c then EmptyString else String c EmptyString
                  | r' => String c r'
                  end
  end.
Definition pystrip (s : string) : string := rstrip (lstrip s).

Fixpoint last_str (l : list string) : string :=
  match l with [] => "" | [x] => x | _ :: r => last_str r end.

(* pytest_configure: None = option absent or empty: nothing happens *)
Inductive pyt_res :=
| PNothing
| PAlready (names : list string)          (* RuntimeError: these are already imported (sorted in the message) *)
| PInstall (names : list string) (chk : string).

Definition pytest_items (value : string) : list string := map pystrip (split_on ","%char value).
Definition pytest_configure (imported : list string) (value : string) : pyt_res :=
  if String.eqb value "" then PNothing else
  let items := pytest_items value in
  let names := removelast items in
  let chk := last_str items in
  match filter (fun n => existsb (String.eqb n) imported) names with
  | [] => PInstall names chk
  | bad => PAlready bad
  end.

(* the run a pytest session performs: plugins given with `-p` are imported first (unhooked), then configure,
   then the test modules import things *)
Definition pytest_run (preload : list string) (value : string) (imports : list string) : option hstate :=
  let s0 := hrun (map Import preload) hs0 in
  match pytest_configure (akeys (loaded s0)) value with
  | PNothing => Some (hrun (map Import imports) s0)
  | PInstall names chk => Some (hrun (Install names (Some chk) :: map Import imports) s0)
  | PAlready _ => None
  end.
Definition show_pytest (preload : list string) (value : string) (imports : list string) : string :=
  match pytest_run preload value imports with Some s => show_loaded s | None => "already-imported" end.

(* ---------- the IPython magic ---------- *)
Inductive xf := XJax (chk : string) | XOther (id : nat).
Definition is_jax (t : xf) : bool := match t with XJax _ => true | _ => false end.
Definition magic (ts : list xf) (chk : string) : list xf := filter (fun t => negb (is_jax t)) ts ++ [XJax chk].

Inductive iop :=
| IMagic (chk : string)
| IAddOther (id : nat)       (* some other extension registers an AST transformer *)
| ICell (name : string).     (* a cell defining one function *)

(* which jaxtyping checkers get applied to the functions of a cell run now: one per jaxtyping transformer *)
Definition cell_checkers (ts : list xf) : list string :=
  flat_map (fun t => match t with XJax c => [c] | _ => [] end) ts.

Record istate := mkis { xfs : list xf; cells : list (string * list string) }.
Definition is0 := mkis [] [].
Definition istep (s : istate) (o : iop) : istate :=
  match o with
  | IMagic c => mkis (magic (xfs s) c) (cells s)
  | IAddOther id => mkis (xfs s ++ [XOther id]) (cells s)
  | ICell n => mkis (xfs s) (cells s ++ [(n, cell_checkers (xfs s))])
  end.
Definition irun (ops : list iop) (s : istate) : istate := fold_left istep ops s.

(* the specification: the checker of the latest magic before the cell, if any *)
Fixpoint latest_magic (ops : list iop) (cur : option string) : option string :=
  match ops with
  | [] => cur
  | IMagic c :: r => latest_magic r (Some c)
  | _ :: r => latest_magic r cur
  end.

Definition show_cells (s : istate) : string :=
  sep_concat "," (map (fun kv => fst kv ++ "=" ++ sep_concat "+" (snd kv)) (cells s)).
Definition show_xfs (s : istate) : string :=
  sep_concat "," (map (fun t => match t with XJax c => "J:" ++ c | XOther i => "O" ++ ns i end) (xfs s)).

(* Sig.v -- the parameter list of the synthesised def (jaxtyping/_decorator.py 575-668) and how Python reads it back. *)
From JT Require Export model.Base.
Open Scope string_scope.

Inductive pkind := PO | PK | VP | KO | VK.       (* positional-only, positional-or-keyword, *args, keyword-only, **kwargs *)
Definition pkind_eqb (a b : pkind) : bool :=
  match a, b with PO, PO | PK, PK | VP, VP | KO, KO | VK, VK => true | _, _ => false end.
Record param := mkparam { p_name : string; p_kind : pkind; p_dflt : bool }.

Inductive piece :=
| PcParam (name : string) (dflt : bool)     (* `name: T<i>` or `name: T<i> = default<i>` *)
| PcSlash | PcStar
| PcStarArgs (name : string) | PcStarStar (name : string).

Definition of_kind (k : pkind) (ps : list param) : list param := filter (fun p => pkind_eqb (p_kind p) k) ps.
Definition pc (p : param) : piece := PcParam (p_name p) (p_dflt p).
Definition nonempty {A} (l : list A) : bool := match l with [] => false | _ => true end.

(* lines 650-675 *)
Definition pieces_of_sig (ps : list param) : list piece :=
  let pos := of_kind PO ps in let pk := of_kind PK ps in let vp := of_kind VP ps in
  let ko := of_kind KO ps in let vk := of_kind VK ps in
  ((if nonempty pos then map pc pos ++ [PcSlash] else []) ++
   map pc pk ++
   (match vp with [p] => [PcStarArgs (p_name p)] | _ => if nonempty ko then [PcStar] else [] end) ++
   map pc ko ++
   (match vk with [p] => [PcStarStar (p_name p)] | _ => [] end))%list.

(* Python's reading of a parameter list *)
Fixpoint take_params (pcs : list piece) : list (string * bool) * list piece :=
  match pcs with
  | PcParam n d :: r => let '(l, rest) := take_params r in ((n, d) :: l, rest)
  | _ => ([], pcs)
  end.

Definition mk (k : pkind) (nd : string * bool) : param := mkparam (fst nd) k (snd nd).

Definition sig_of_pieces (pcs : list piece) : option (list param) :=
  let '(run1, rest1) := take_params pcs in
  let '(front, rest2) :=
    match rest1 with
    | PcSlash :: r => let '(run2, r') := take_params r in ((map (mk PO) run1 ++ map (mk PK) run2)%list, r')
    | _ => (map (mk PK) run1, rest1)
    end in
  let '(mid, rest3) :=
    match rest2 with
    | PcStarArgs n :: r => let '(run3, r') := take_params r in ((mkparam n VP false :: map (mk KO) run3), r')
    | PcStar :: r => let '(run3, r') := take_params r in (map (mk KO) run3, r')
    | _ => ([], rest2)
    end in
  match rest3 with
  | [] => Some (front ++ mid)%list
  | [PcStarStar n] => Some (front ++ mid ++ [mkparam n VK false])%list
  | _ => None
  end.

(* inspect.Signature's own well-formedness: kinds in order, at most one *args and one **kwargs (which have no default) *)
Definition all_kind (k : pkind) (l : list param) : Prop := Forall (fun p => p_kind p = k) l.
Definition wf_sig (ps : list param) : Prop :=
  exists pos pk vp ko vk,
    ps = (pos ++ pk ++ vp ++ ko ++ vk)%list /\
    all_kind PO pos /\ all_kind PK pk /\ all_kind VP vp /\ all_kind KO ko /\ all_kind VK vk /\
    (length vp <= 1)%nat /\ (length vk <= 1)%nat /\ Forall (fun p => p_dflt p = false) (vp ++ vk)%list.

Definition show_piece (p : piece) : string :=
  match p with
  | PcParam n d => "P:" ++ n ++ ":" ++ (if d then "1" else "0")
  | PcSlash => "/" | PcStar => "*"
  | PcStarArgs n => "*" ++ n | PcStarStar n => "**" ++ n
  end.
Definition show_pieces (l : list piece) : string := sep_concat "," (map show_piece l).

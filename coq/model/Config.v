(* Config.v -- the checking switches: _config.py `_maybestr2bool` / `update`, and the early
   return of the new-style wrapper (_decorator.py 523-528).  The accepted spellings are
   regenerated from the source (gen/ConfigTable.v). *)
From JT Require Export model.Base gen.ConfigTable.
Open Scope string_scope.

Inductive cval := VBool (b : bool) | VStr (s : string) | VOther.

Definition lower_ascii (c : ascii) : ascii :=
  let n := nat_of_ascii c in if (65 <=? n)%nat && (n <=? 90)%nat then ascii_of_nat (n + 32) else c.
Fixpoint lower (s : string) : string :=
  match s with EmptyString => EmptyString | String c r => String (lower_ascii c) (lower r) end.

Definition smem (s : string) (l : list string) : bool := existsb (String.eqb s) l.

(* None = ValueError *)
Definition maybestr2bool (v : cval) : option bool :=
  match v with
  | VBool b => Some b
  | VStr s => if smem (lower s) false_spellings then Some false
              else if smem (lower s) true_spellings then Some true else None
  | VOther => None
  end.

(* a decorated call: with checking off (flag, or no_type_check on either side) the wrapper
   calls the function and nothing else *)
Inductive event := EBind | EPush | EParamCheck | EBody | EFullCheck | EPop | ETypeError | ETypeCheckError.

Record callinfo := mkcall {
  binds : bool;            (* the argument list binds to the signature *)
  params_ok : bool;        (* the parameter walk accepts *)
  has_ret : bool;          (* a return annotation exists *)
  full_ok : bool }.        (* the walk over parameters + return value accepts *)

Definition wrapper_trace (disabled ntc_fn ntc_wrapper : bool) (c : callinfo) : list event :=
  if disabled || ntc_fn || ntc_wrapper then [EBody]
  else if negb (binds c) then [EBind; ETypeError]
  else if negb (params_ok c) then [EBind; EPush; EParamCheck; EPop; ETypeCheckError]
  else if has_ret c then
    (if full_ok c then [EBind; EPush; EParamCheck; EBody; EFullCheck; EPop]
     else [EBind; EPush; EParamCheck; EBody; EFullCheck; EPop; ETypeCheckError])
  else [EBind; EPush; EParamCheck; EBody; EPop].

(* a history of switch updates and calls; the flag is read at call time *)
Inductive cop := OUpdate (v : cval) | OCall (c : callinfo).

Fixpoint run_ops (flag : bool) (ops : list cop) : list (list event) :=
  match ops with
  | [] => []
  | OUpdate v :: r => match maybestr2bool v with
                      | Some b => [] :: run_ops b r
                      | None => [ETypeError] :: run_ops flag r      (* ValueError: flag unchanged *)
                      end
  | OCall c :: r => wrapper_trace flag false false c :: run_ops flag r
  end.

Definition show_parse (o : option bool) : string := match o with Some true => "True" | Some false => "False" | None => "ValueError" end.

(* Broadcast.v -- np.broadcast_shapes on two shapes (used at _array_types.py 298, 307).
   Right-aligned; size 1 yields to the other side, otherwise sizes must be equal
   (so 1 against 0 gives 0, as NumPy does). *)
From JT Require Export model.Base.
Open Scope Z_scope.

Definition bce (x y : Z) : option Z :=
  if x =? 1 then Some y else if y =? 1 then Some x else if x =? y then Some x else None.

(* on reversed (right-aligned) shapes *)
Fixpoint bcr (a b : list Z) : option (list Z) :=
  match a, b with
  | [], _ => Some b
  | _, [] => Some a
  | x :: a', y :: b' =>
    match bce x y, bcr a' b' with
    | Some z, Some r => Some (z :: r)
    | _, _ => None
    end
  end.

Definition bcast (a b : list Z) : option (list Z) :=
  option_map (@rev Z) (bcr (rev a) (rev b)).

Fixpoint zlist_eqb (a b : list Z) : bool :=
  match a, b with
  | [], [] => true
  | x :: a', y :: b' => (x =? y) && zlist_eqb a' b'
  | _, _ => false
  end.

(* PyL.v -- a deep embedding of the small Python fragment in which jaxtyping/_array_types.py:_check_dims is written, with an
   interpreter.  translator/tr_pyl.py turns the function's AST into a term of this language on every run
   (gen/CheckDimsSrc.v); proofs/PyLFacts.v proves that interpreting THAT term computes exactly model/Check.v:check_dims.
   Values are the model's own data (dims, shapes, the memo dictionaries); `eval` of a symbolic axis is the model's
   eval_sym (Python's eval is modelled, not verified); messages are abstracted to "" / non-empty. *)
From JT Require Export model.Check.
Open Scope string_scope.

Inductive pval :=
| VZ (z : Z) | VS (s : string) | VB (b : bool) | VNone
| VDim (d : dim)
| VZs (l : list Z)                       (* a tuple of ints *)
| VDims (l : list dim)                   (* a list of parsed dims *)
| VSingle (m : alist Z)                  (* dict: axis name -> size *)
| VArgs (m : alist Z)                    (* dict: argument name -> value *)
| VVariadic (m : alist (bool * list Z))  (* dict: variadic name -> (was broadcastable, shape) *)
| VPair (a b : pval)                     (* a 2-tuple *)
| VCls (iv : option nat) (dl : list dim) (* the annotation class: .index_variadic, .dims *)
| VObj (sh : list Z)                     (* the array: .shape *)
| VStrs (l : list string)                (* a list of strings *)
| VFinder (modules : list string).       (* the import hook's finder: .modules *)

Inductive pexpr :=
| PVar (x : string)
| PStr (s : string)                      (* "" stays "", every other string literal / f-string is the marker "msg" *)
| PInt (z : Z) | PBool (b : bool) | PNone
| PGlobal (g : string)                   (* module-level sentinels: _anonymous_dim, _anonymous_variadic_dim *)
| PAttr (e : pexpr) (f : string)
| PIs (a b : pexpr) | PEq (a b : pexpr) | PNe (a b : pexpr)
| PAnd (a b : pexpr) | PNot (a : pexpr)
| PTypeIs (e : pexpr) (cls : string)     (* type(e) is cls *)
| PAdd (a b : pexpr)
| PLen (e : pexpr)
| PCall0 (f : string)                    (* get_treepath_memo() *)
| PLt (a b : pexpr) | PSub (a b : pexpr) | PNeg (a : pexpr)
| PSlice (e : pexpr) (lo hi : option pexpr)     (* e[lo:hi] *)
| PIndex (e i : pexpr)                          (* e[i] on a list of dims *)
| PTuple2 (a b : pexpr)
| POr (a b : pexpr)
| PStartsWith (a b : pexpr).                    (* a.startswith(b) *)

Inductive pstmt :=
| SPass
| SAssign (x : string) (e : pexpr)
| SSetItem (d : string) (k v : pexpr)                                   (* d[k] = v *)
| SIf (c : pexpr) (t e : list pstmt)
| SReturn (e : pexpr)
| SAssert (c : pexpr)
| SForZip (x y : string) (a b : pexpr) (body : list pstmt)              (* for x, y in zip(a, b): body *)
| STryKey (x d : string) (k : pexpr) (onmiss orelse : list pstmt)       (* try: x = d[k] / except KeyError: onmiss / else: orelse *)
| SEvalSym (x : string) (src : pexpr) (argd sd : string)                (* the two-stage eval of a symbolic axis; NameError -> AnnotationError *)
| SCallAssign (x f : string) (args : list pexpr)                        (* x = f(args): f is another translated function *)
| STryKey2 (x1 x2 d : string) (k : pexpr) (onmiss orelse : list pstmt)  (* try: x1, x2 = d[k] / except KeyError: onmiss / else: orelse *)
| STryBroadcast (x : string) (a b : pexpr) (onfail : list pstmt)        (* try: x = np.broadcast_shapes(a, b) / except ValueError: onfail *)
| SForIn (x : string) (a : pexpr) (body : list pstmt).                  (* for x in a: body   (a list of strings) *)

Definition penv := string -> option pval.
Definition upd (env : penv) (x : string) (v : pval) : penv := fun y => if String.eqb x y then Some v else env y.

Inductive pres := RVal (v : pval) | RExn (e : exn).
Inductive outcome := ONormal (env : penv) | OReturn (v : pval) (env : penv) | ORaise (e : exn) (env : penv).

Fixpoint str_prefix (p s : string) : bool :=
  match p, s with
  | EmptyString, _ => true
  | String a p', String b s' => Ascii.eqb a b && str_prefix p' s'
  | _, EmptyString => false
  end.

Definition norm_idx (n x : Z) : Z := if (x <? 0)%Z then Z.max (n + x) 0 else Z.min x n.
(* Python's l[lo:hi] (step 1) *)
Definition pyslice {A} (l : list A) (lo hi : option Z) : list A :=
  let n := Z.of_nat (length l) in
  let a := match lo with None => 0%Z | Some x => norm_idx n x end in
  let b := match hi with None => n | Some x => norm_idx n x end in
  if (b <=? a)%Z then [] else firstn (Z.to_nat (b - a)) (skipn (Z.to_nat a) l).

Section Interp.
Variables (lbl : option string) (st : symtab).
(* another translated function: result and the final values of its parameters (dictionaries are passed by reference) *)
Variable call : string -> list pval -> option (pres * list pval).

Definition dim_attr (d : dim) (f : string) : pres :=
  match d, f with
  | DNamed _ bc _, "broadcastable" | DVarNamed _ bc _, "broadcastable" | DFixed _ bc, "broadcastable" | DSym _ bc, "broadcastable" => RVal (VB bc)
  | DFixed z _, "size" => RVal (VZ z)
  | DSym src _, "elem" => RVal (VS src)
  | DNamed n _ _, "name" | DVarNamed n _ _, "name" => RVal (VS n)
  | DNamed _ _ tp, "treepath" | DVarNamed _ _ tp, "treepath" => RVal (VB tp)
  | _, _ => RExn OtherExc                                   (* AttributeError *)
  end.

Definition dim_class (d : dim) : string :=
  match d with
  | DAnon => "object" | DVarAnon => "object"
  | DNamed _ _ _ => "_NamedDim" | DVarNamed _ _ _ => "_NamedVariadicDim"
  | DFixed _ _ => "_FixedDim" | DSym _ _ => "_SymbolicDim"
  end.

Definition val_eqb (a b : pval) : option bool :=
  match a, b with
  | VZ x, VZ y => Some (x =? y)%Z
  | VS x, VS y => Some (String.eqb x y)
  | VB x, VB y => Some (Bool.eqb x y)
  | VZs x, VZs y => Some (zlist_eqb x y)
  | _, _ => None
  end.

Fixpoint evale (env : penv) (e : pexpr) : pres :=
  match e with
  | PVar x => match env x with Some v => RVal v | None => RExn OtherExc end      (* NameError / UnboundLocalError *)
  | PStr s => RVal (VS s)
  | PInt z => RVal (VZ z)
  | PBool b => RVal (VB b)
  | PNone => RVal VNone
  | PGlobal g => if String.eqb g "_anonymous_dim" then RVal (VDim DAnon)
                 else if String.eqb g "_anonymous_variadic_dim" then RVal (VDim DVarAnon) else RExn OtherExc
  | PAttr a f => match evale env a with
                 | RVal (VDim d) => dim_attr d f
                 | RVal (VCls iv dl) =>
                     if String.eqb f "index_variadic" then RVal (match iv with None => VNone | Some i => VZ (Z.of_nat i) end)
                     else if String.eqb f "dims" then RVal (VDims dl) else RExn OtherExc
                 | RVal (VObj sh) => if String.eqb f "shape" then RVal (VZs sh) else RExn OtherExc
                 | RVal (VFinder ms) => if String.eqb f "modules" then RVal (VStrs ms) else RExn OtherExc
                 | RVal _ => RExn OtherExc
                 | r => r
                 end
  | PIs a b => match evale env a, evale env b with
               | RVal (VDim DAnon), RVal (VDim DAnon) | RVal (VDim DVarAnon), RVal (VDim DVarAnon) | RVal VNone, RVal VNone => RVal (VB true)
               | RVal _, RVal _ => RVal (VB false)
               | RExn e, _ => RExn e | _, RExn e => RExn e
               end
  | PEq a b => match evale env a, evale env b with
               | RVal x, RVal y => match val_eqb x y with Some r => RVal (VB r) | None => RVal (VB false) end
               | RExn e, _ => RExn e | _, RExn e => RExn e
               end
  | PNe a b => match evale env a, evale env b with
               | RVal x, RVal y => match val_eqb x y with Some r => RVal (VB (negb r)) | None => RVal (VB true) end
               | RExn e, _ => RExn e | _, RExn e => RExn e
               end
  | PAnd a b => match evale env a with
                | RVal (VB false) => RVal (VB false)
                | RVal (VB true) => evale env b
                | RVal _ => RExn OtherExc
                | r => r
                end
  | PNot a => match evale env a with RVal (VB x) => RVal (VB (negb x)) | RVal _ => RExn OtherExc | r => r end
  | PTypeIs a cls => match evale env a with RVal (VDim d) => RVal (VB (String.eqb (dim_class d) cls)) | RVal _ => RVal (VB false) | r => r end
  | PAdd a b => match evale env a, evale env b with
                | RVal (VS x), RVal (VS y) => RVal (VS (x ++ y))
                | RVal (VZ x), RVal (VZ y) => RVal (VZ (x + y))
                | RVal _, RVal _ => RExn OtherExc
                | RExn e, _ => RExn e | _, RExn e => RExn e
                end
  | PLen a => match evale env a with
              | RVal (VZs l) => RVal (VZ (Z.of_nat (length l)))
              | RVal (VDims l) => RVal (VZ (Z.of_nat (length l)))
              | RVal _ => RExn OtherExc
              | r => r
              end
  | PCall0 f => if String.eqb f "get_treepath_memo"
                then match lbl with Some l => RVal (VS l) | None => RExn AnnotationErr end
                else RExn OtherExc
  | PLt a b => match evale env a, evale env b with
               | RVal (VZ x), RVal (VZ y) => RVal (VB (x <? y)%Z)
               | RVal _, RVal _ => RExn OtherExc
               | RExn e, _ => RExn e | _, RExn e => RExn e
               end
  | PSub a b => match evale env a, evale env b with
                | RVal (VZ x), RVal (VZ y) => RVal (VZ (x - y))
                | RVal _, RVal _ => RExn OtherExc
                | RExn e, _ => RExn e | _, RExn e => RExn e
                end
  | PNeg a => match evale env a with RVal (VZ x) => RVal (VZ (- x)) | RVal _ => RExn OtherExc | r => r end
  | PSlice a lo hi =>
      let bound (o : option pexpr) : option (option Z) + exn :=
          match o with
          | None => inl (Some None)
          | Some e => match evale env e with RVal (VZ z) => inl (Some (Some z)) | RVal VNone => inl (Some None) | RVal _ => inl None | RExn ex => inr ex end
          end in
      match evale env a, bound lo, bound hi with
      | RExn ex, _, _ => RExn ex
      | _, inr ex, _ => RExn ex
      | _, _, inr ex => RExn ex
      | RVal (VZs l), inl (Some x), inl (Some y) => RVal (VZs (pyslice l x y))
      | RVal (VDims l), inl (Some x), inl (Some y) => RVal (VDims (pyslice l x y))
      | _, _, _ => RExn OtherExc
      end
  | PIndex a i => match evale env a, evale env i with
                  | RVal (VDims l), RVal (VZ z) =>
                      if (z <? 0)%Z then RExn OtherExc
                      else match nth_error l (Z.to_nat z) with Some d => RVal (VDim d) | None => RExn OtherExc end
                  | RVal _, RVal _ => RExn OtherExc
                  | RExn e, _ => RExn e | _, RExn e => RExn e
                  end
  | PTuple2 a b => match evale env a, evale env b with
                   | RVal x, RVal y => RVal (VPair x y)
                   | RExn e, _ => RExn e | _, RExn e => RExn e
                   end
  | POr a b => match evale env a with
               | RVal (VB true) => RVal (VB true)
               | RVal (VB false) => evale env b
               | RVal _ => RExn OtherExc
               | r => r
               end
  | PStartsWith a b => match evale env a, evale env b with
                       | RVal (VS x), RVal (VS y) => RVal (VB (str_prefix y x))
                       | RVal _, RVal _ => RExn OtherExc
                       | RExn e, _ => RExn e | _, RExn e => RExn e
                       end
  end.

Fixpoint evals (env : penv) (l : list pexpr) : list pval + exn :=
  match l with
  | [] => inl []
  | e :: r => match evale env e with
              | RExn ex => inr ex
              | RVal v => match evals env r with inl vs => inl (v :: vs) | inr ex => inr ex end
              end
  end.

(* by-reference parameters: after a call, a variable passed as an argument holds what the callee left in that parameter *)
Fixpoint write_back (env : penv) (args : list pexpr) (outs : list pval) : penv :=
  match args, outs with
  | PVar y :: ar, v :: vr => write_back (upd env y v) ar vr
  | _ :: ar, _ :: vr => write_back env ar vr
  | _, _ => env
  end.

Definition truthy (r : pres) : option bool + exn :=
  match r with RVal (VB b) => inl (Some b) | RVal _ => inl None | RExn e => inr e end.

(* `for x, y in zip(l1, l2)`: the body is a function of the environment *)
Fixpoint for_zip (step : penv -> outcome) (x y : string) (l1 : list dim) (l2 : list Z) (env : penv) {struct l1} : outcome :=
  match l1, l2 with
  | d :: r1, z :: r2 =>
      match step (upd (upd env x (VDim d)) y (VZ z)) with
      | ONormal env1 => for_zip step x y r1 r2 env1
      | o => o
      end
  | _, _ => ONormal env                           (* zip stops at the shorter one *)
  end.

Fixpoint for_in (step : penv -> outcome) (x : string) (l : list string) (env : penv) {struct l} : outcome :=
  match l with
  | v :: r => match step (upd env x (VS v)) with ONormal env1 => for_in step x r env1 | o => o end
  | [] => ONormal env
  end.

Fixpoint exec (s : pstmt) (env : penv) {struct s} : outcome :=
  let exec_list :=
      fix exec_list (l : list pstmt) (env : penv) {struct l} : outcome :=
        match l with
        | [] => ONormal env
        | s1 :: r => match exec s1 env with ONormal env1 => exec_list r env1 | o => o end
        end in
  match s with
  | SPass => ONormal env
  | SAssign x e => match evale env e with RVal v => ONormal (upd env x v) | RExn ex => ORaise ex env end
  | SSetItem d k v =>
      match env d, evale env k, evale env v with
      | Some (VSingle m), RVal (VS kk), RVal (VZ z) => ONormal (upd env d (VSingle (aset m kk z)))
      | Some (VVariadic m), RVal (VS kk), RVal (VPair (VB b) (VZs l)) => ONormal (upd env d (VVariadic (aset m kk (b, l))))
      | _, RExn ex, _ => ORaise ex env
      | _, _, RExn ex => ORaise ex env
      | _, _, _ => ORaise OtherExc env
      end
  | SIf c t e =>
      match truthy (evale env c) with
      | inl (Some true) => exec_list t env
      | inl (Some false) => exec_list e env
      | inl None => ORaise OtherExc env
      | inr ex => ORaise ex env
      end
  | SReturn e => match evale env e with RVal v => OReturn v env | RExn ex => ORaise ex env end
  | SAssert c =>
      match truthy (evale env c) with
      | inl (Some true) => ONormal env
      | inl _ => ORaise OtherExc env                        (* AssertionError *)
      | inr ex => ORaise ex env
      end
  | SForZip x y a b body =>
      match evale env a, evale env b with
      | RVal (VDims l1), RVal (VZs l2) => for_zip (fun env' => exec_list body env') x y l1 l2 env
      | RExn ex, _ => ORaise ex env
      | _, RExn ex => ORaise ex env
      | _, _ => ORaise OtherExc env
      end
  | STryKey x d k onmiss orelse =>
      match env d, evale env k with
      | Some (VSingle m), RVal (VS kk) =>
          match aget m kk with
          | Some z => exec_list orelse (upd env x (VZ z))
          | None => exec_list onmiss env
          end
      | _, RExn ex => ORaise ex env
      | _, _ => ORaise OtherExc env
      end
  | SEvalSym x src argd sd =>
      match evale env src, env argd, env sd with
      | RVal (VS s), Some (VArgs args), Some (VSingle sm) =>
          match aget st s with
          | None => ORaise OtherExc env
          | Some e =>
              match eval_sym sm args e with
              | EVal v => ONormal (upd env x (VZ v))
              | ENameErr => ORaise AnnotationErr env
              | EExc => ORaise OtherExc env
              | EBaseExc => ORaise BaseExc env
              end
          end
      | RExn ex, _, _ => ORaise ex env
      | _, _, _ => ORaise OtherExc env
      end
  | SCallAssign x f args =>
      match evals env args with
      | inr ex => ORaise ex env
      | inl vs =>
          match call f vs with
          | Some (RVal v, outs) => ONormal (upd (write_back env args outs) x v)
          | Some (RExn ex, outs) => ORaise ex (write_back env args outs)
          | None => ORaise OtherExc env
          end
      end
  | STryKey2 x1 x2 d k onmiss orelse =>
      match env d, evale env k with
      | Some (VVariadic m), RVal (VS kk) =>
          match aget m kk with
          | Some (b, l) => exec_list orelse (upd (upd env x1 (VB b)) x2 (VZs l))
          | None => exec_list onmiss env
          end
      | _, RExn ex => ORaise ex env
      | _, _ => ORaise OtherExc env
      end
  | SForIn x a body =>
      match evale env a with
      | RVal (VStrs l) => for_in (fun env' => exec_list body env') x l env
      | RVal _ => ORaise OtherExc env
      | RExn ex => ORaise ex env
      end
  | STryBroadcast x a b onfail =>
      match evale env a, evale env b with
      | RVal (VZs la), RVal (VZs lb) =>
          match bcast la lb with
          | Some r => ONormal (upd env x (VZs r))
          | None => exec_list onfail env
          end
      | RExn ex, _ => ORaise ex env
      | _, RExn ex => ORaise ex env
      | _, _ => ORaise OtherExc env
      end
  end.

Fixpoint exec_list (l : list pstmt) (env : penv) : outcome :=
  match l with
  | [] => ONormal env
  | s1 :: r => match exec s1 env with ONormal env1 => exec_list r env1 | o => o end
  end.
End Interp.

(* a function body: falling off the end returns None *)
Definition no_calls : string -> list pval -> option (pres * list pval) := fun _ _ => None.

Definition run_body_with (call : string -> list pval -> option (pres * list pval)) (lbl : option string) (st : symtab) (body : list pstmt) (env : penv) : outcome :=
  match exec_list lbl st call body env with ONormal env1 => OReturn VNone env1 | o => o end.
Definition run_body := run_body_with no_calls.

(* calling a translated function with positional arguments *)
Fixpoint bind_params (params : list string) (vs : list pval) (env : penv) : penv :=
  match params, vs with p :: pr, v :: vr => bind_params pr vr (upd env p v) | _, _ => env end.
Definition call_fn (lbl : option string) (st : symtab) (params : list string) (body : list pstmt) (vs : list pval) : pres * list pval :=
  let outs env := map (fun p => match env p with Some v => v | None => VNone end) params in
  match run_body lbl st body (bind_params params vs (fun _ => None)) with
  | OReturn v env => (RVal v, outs env)
  | ORaise e env => (RExn e, outs env)
  | ONormal env => (RVal VNone, outs env)
  end.

(* ---------- running the generated function on model data, rendered for the correspondence check ---------- *)
Definition env_of (dl : list dim) (sh : list Z) (sm args : alist Z) : penv :=
  upd (upd (upd (upd (fun _ => None) "cls_dims" (VDims dl)) "obj_shape" (VZs sh)) "single_memo" (VSingle sm)) "arg_memo" (VArgs args).

Definition show_outcome (o : outcome) : string :=
  let mem env := match env "single_memo" with Some (VSingle m) => show_single m | _ => "?" end in
  match o with
  | OReturn (VS s) env => "ret:" ++ s ++ " {" ++ mem env ++ "}"
  | OReturn _ env => "ret:? {" ++ mem env ++ "}"
  | ONormal env => "fell-off {" ++ mem env ++ "}"
  | ORaise e env => "raise:" ++ show_exn e ++ " {" ++ mem env ++ "}"
  end.

Definition run_src (body : list pstmt) (lbl : option string) (st : symtab) (dimstr : string) (sh : list Z) (sm args : alist Z) : string :=
  match parse_dims dimstr with
  | Ok d => show_outcome (run_body lbl st body (env_of (ds d) sh sm args))
  | Err _ => "ValueError"
  end.

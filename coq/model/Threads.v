(* Threads.v -- threads running checks concurrently (C06).  jaxtyping/_storage.py keeps three cells: the context
   stack, the '?'-leaf position and the flatten mode.  Each cell is thread-local or shared (gen/StorageKinds.v says
   which, from the source).  A thread's workload is a sequence of ATOMIC steps on those cells -- the storage
   accessor calls a check is made of -- and a context switch may occur between any two steps. *)
From JT Require Export model.PyTreeCheck gen.StorageKinds.
Open Scope string_scope.

(* the atomic steps (what the accessors of _storage.py do), and an array check between two accessor calls *)
Inductive tstep :=
| TPush | TPop
| TSetFlat (b : bool) | TSetPath (p : option string)
| TArr (a : annot) (v : value)       (* reads flat + path + the top context; writes the top context *)
| TObserve.                          (* print_bindings: the top context and the depth *)

Inductive tobs := ObsVerdict (v : verdict) | ObsBindings (m : memo) (depth : nat) | ObsNone.

Definition step_view (st : symtab) (o : tstep) (s : pstore) : pstore * tobs :=
  match o with
  | TPush => (mkps ((empty_memo, []) :: ps_stack s) (ps_path s) (ps_flat s), ObsNone)
  | TPop => (mkps (tl (ps_stack s)) (ps_path s) (ps_flat s), ObsNone)
  | TSetFlat b => (with_flat s b, ObsNone)
  | TSetPath p => (with_path s p, ObsNone)
  | TArr a v => let '(vd, s') := arr_check st a v s in (s', ObsVerdict vd)
  | TObserve => (s, ObsBindings (fst (top_frame s)) (length (ps_stack s)))
  end.

(* the global store: one shared copy of every cell plus one private copy per thread; the kind of a cell says which
   one a thread sees and writes *)
Record gstore := mkgs { g_shared : pstore; g_local : list pstore }.

Definition is_tl (k : cellkind) : bool := match k with ThreadLocal => true | _ => false end.

Section Kinds.
Variables (k_stack k_path k_flat : cellkind).

Definition view (g : gstore) (t : nat) : pstore :=
  let l := nth t (g_local g) (mkps [] None false) in
  mkps (if is_tl k_stack then ps_stack l else ps_stack (g_shared g))
       (if is_tl k_path then ps_path l else ps_path (g_shared g))
       (if is_tl k_flat then ps_flat l else ps_flat (g_shared g)).

Fixpoint set_nth {A} (n : nat) (x : A) (l : list A) : list A :=
  match n, l with
  | _, [] => []
  | O, _ :: r => x :: r
  | S n', y :: r => y :: set_nth n' x r
  end.

Definition write_back (g : gstore) (t : nat) (s : pstore) : gstore :=
  let l := nth t (g_local g) (mkps [] None false) in
  let l' := mkps (if is_tl k_stack then ps_stack s else ps_stack l)
                 (if is_tl k_path then ps_path s else ps_path l)
                 (if is_tl k_flat then ps_flat s else ps_flat l) in
  let sh := g_shared g in
  let sh' := mkps (if is_tl k_stack then ps_stack sh else ps_stack s)
                  (if is_tl k_path then ps_path sh else ps_path s)
                  (if is_tl k_flat then ps_flat sh else ps_flat s) in
  mkgs sh' (set_nth t l' (g_local g)).

(* run a schedule: at each tick the named thread executes its next step (if it has one left) *)
Fixpoint run_sched (st : symtab) (sched : list nat) (progs : list (list tstep)) (g : gstore) (obs : list (list tobs))
  : gstore * list (list tobs) :=
  match sched with
  | [] => (g, obs)
  | t :: rest =>
      match nth t progs [] with
      | [] => run_sched st rest progs g obs
      | o :: more =>
          let '(s', ob) := step_view st o (view g t) in
          run_sched st rest (set_nth t more progs) (write_back g t s') (set_nth t (nth t obs [] ++ [ob])%list obs)
      end
  end.
End Kinds.

(* one thread alone *)
Fixpoint run_solo (st : symtab) (prog : list tstep) (s : pstore) : pstore * list tobs :=
  match prog with
  | [] => (s, [])
  | o :: more => let '(s', ob) := step_view st o s in let '(s'', obs) := run_solo st more s' in (s'', ob :: obs)
  end.

Definition show_tobs (o : tobs) : string :=
  match o with ObsVerdict v => show_verdict v | ObsBindings m d => "b" ++ ns d ++ ":" ++ show_memo m | ObsNone => "-" end.

(* Synth.v -- how the new-style wrapper synthesises its checking functions, jaxtyping/_decorator.py
   _make_fn_with_signature 556-690 and _gensym 693-702: fresh names for annotations / defaults / the return value. *)
From JT Require Export model.Base.
Open Scope string_scope.

Definition smem (s : string) (l : list string) : bool := existsb (String.eqb s) l.
Definition cand (prefix : string) (i : nat) : string := prefix ++ ns i.

(* while output_name in names: output_index += 1 -- the loop runs at most len(names) times; the fuel makes that explicit *)
Fixpoint gensym_from (names : list string) (prefix : string) (fuel i : nat) : string :=
  match fuel with
  | O => cand prefix i
  | S f => if smem (cand prefix i) names then gensym_from names prefix f (S i) else cand prefix i
  end.
Definition gensym (names : list string) (prefix : string) : string := gensym_from names prefix (length names) 0.

(* lines 603-648: for every (parameter, "return", output) triple an annotation name and a default name,
   each fresh w.r.t. the scope so far and all parameter names; scope starts as {function name} *)
Fixpoint gen_names (scope params : list string) (n : nat) : list (string * string) :=
  match n with
  | O => []
  | S n' =>
      let a := gensym (scope ++ params) "T" in
      let d := gensym ((a :: scope) ++ params) "default" in
      (a, d) :: gen_names (d :: a :: scope) params n'
  end.

Definition generated (l : list (string * string)) : list string := flat_map (fun p => [fst p; snd p]) l.

(* the name under which the function is defined: its own name when that can follow `def`, else a fresh one
   (fix commit 2f0d31c in /repo) *)
Definition def_name (name_ok : bool) (name : string) (params : list string) : string :=
  if name_ok then name else gensym params "fn".

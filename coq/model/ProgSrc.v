(* ProgSrc.v -- model/Prog.v's interpreter with the wrapper's `try: ... finally: pop_shape_memo()` as a parameter.
   fin = true : the context pushed by a decorated call is popped on every exit (what try/finally does);
   fin = false: it is popped only when the call completes without an exception (a pop placed after the body).
   translator/tr_brackets.py reads from _decorator.py which of the two the source is (gen/Brackets.v: push_pop_bracketed). *)
From JT Require Export model.Prog.
Open Scope string_scope.

Section Run.
Variables (fin : bool) (lbl : option string) (st : symtab).

Definition finish_src (r : stack * list pevent * sig) : stack * list pevent * sig :=
  let '(s1, ev, sg) := r in
  ((match sg with None => pop_memo s1 | Some _ => if fin then pop_memo s1 else s1 end), ev, sg).

Fixpoint run_src (p : prog) (s : stack) {struct p} : stack * list pevent * sig :=
  let run_list :=
      fix run_list (ps : list prog) (s : stack) {struct ps} : stack * list pevent * sig :=
        match ps with
        | [] => (s, [], None)
        | p :: r =>
            match run_src p s with
            | (s1, ev1, None) => let '(s2, ev2, sg) := run_list r s1 in (s2, (ev1 ++ ev2)%list, sg)
            | (s1, ev1, Some e) => (s1, ev1, Some e)
            end
        end in
  match p with
  | PCheck (a, v) =>
      let '(vd, s') := instancecheck false lbl st a v s in
      (s', [EvVerdict vd], match vd with Raise e => Some e | _ => None end)
  | PObserve => (s, [EvBindings (get_memo s) (length s)], None)
  | PCall sty binds params body x =>
      if negb binds then (s, [], Some OtherExc)
      else
        let s0 := push_memo s [] in
        match sty with
        | SNone =>
            match x with
            | XGenerator => let '(s1, ev, sg) := run_list body (pop_memo s0) in (s1, ev, sg)
            | _ => finish_src (let '(s1, ev, sg) := run_list body s0 in
                               (s1, ev, match sg with Some e => Some e | None => exit_sig x end))
            end
        | SNew | SOld =>
            match walk lbl st params s0 with
            | (Acc, s1) =>
                match x with
                | XGenerator => run_list body (pop_memo s1)
                | _ => finish_src (let '(s2, ev, sg) := run_list body s1 in
                                   (s2, ev, match sg with Some e => Some e | None => exit_sig x end))
                end
            | (Rej, s1) => finish_src (s1, [], Some OtherExc)
            | (Raise e, s1) => finish_src (s1, [], Some (match e with AnnotationErr => AnnotationErr | BaseExc => BaseExc | _ => OtherExc end))
            end
        end
  | PContext body x =>
      let s0 := push_memo s [] in
      let '(s1, ev, sg) := run_list body s0 in
      (pop_memo s1, ev, match sg with Some e => Some e | None => exit_sig x end)
  | PTry body =>
      match run_list body s with
      | (s1, ev, Some e) => (s1, (ev ++ [EvExc e])%list, None)
      | r => r
      end
  end.

Fixpoint run_list_src (ps : list prog) (s : stack) : stack * list pevent * sig :=
  match ps with
  | [] => (s, [], None)
  | p :: r =>
      match run_src p s with
      | (s1, ev1, None) => let '(s2, ev2, sg) := run_list_src r s1 in (s2, (ev1 ++ ev2)%list, sg)
      | (s1, ev1, Some e) => (s1, ev1, Some e)
      end
  end.
End Run.

(* Dtype.v -- dtype-name extraction (jaxtyping/_array_types.py 196-211) as a function of
   "facets" of a dtype object, and the match loop (213-228) incl. re.Pattern.match, which
   is anchored at the start only.  No proofs here. *)
From JT Require Export model.Base.
Open Scope string_scope.

(* what lines 196-211 look at *)
Record facets := mkfacets {
  f_type_name : option string;             (* dtype.type.__name__  when dtype has .type with a __name__ *)
  f_struct_str : option string;            (* Some (str dtype) when it is a NumPy structured dtype *)
  f_as_numpy : option (option string);     (* Some x: dtype has as_numpy_dtype; x = its __name__ if it has one *)
  f_str : option string;                   (* Some s when the dtype object is itself the str s *)
  f_repr : string }.                       (* repr(dtype) *)

(* text after the last '.' (rsplit(".", 1)[-1]) *)
Fixpoint after_last_dot_aux (s acc : string) : string :=
  match s with
  | EmptyString => acc
  | String "."%char r => after_last_dot_aux r r
  | String _ r => after_last_dot_aux r acc
  end.
Definition after_last_dot (s : string) : string := after_last_dot_aux s s.

Inductive nameres := NName (s : string) | NAttributeError.

(* TF quantized dtypes: as_numpy_dtype is an np.dtype instance without __name__; since the fix
   commit in /repo ("answer instead of raising AttributeError ...") they take the generic branch *)
Definition extract_name (f : facets) : nameres :=
  match f_type_name f with
  | Some n => NName (match f_struct_str f with Some s => s | None => n end)
  | None =>
      match f_as_numpy f with
      | Some (Some n) => NName n
      | _ =>
          match f_str f with
          | Some s => NName s
          | None => NName (after_last_dot (f_repr f))
          end
      end
  end.

(* ---------- a fragment of Python's `re`: literal, '.', concatenation, '|', '*', '$' ---------- *)
Inductive re := RNone | REps | REnd | RChr (c : ascii) | RAny | RCat (a b : re) | RAlt (a b : re) | RStar (a : re).

(* nullable; `at_end` says whether '$' may match here *)
Fixpoint nullable (at_end : bool) (r : re) : bool :=
  match r with
  | RNone => false | REps => true | REnd => at_end
  | RChr _ | RAny => false
  | RCat a b => nullable at_end a && nullable at_end b
  | RAlt a b => nullable at_end a || nullable at_end b
  | RStar _ => true
  end.

(* Brzozowski derivative; '$' cannot be followed by a character, '.' does not match newline *)
Fixpoint deriv (c : ascii) (r : re) : re :=
  match r with
  | RNone | REps | REnd => RNone
  | RChr d => if Ascii.eqb c d then REps else RNone
  | RAny => if Ascii.eqb c (ascii_of_nat 10) then RNone else REps
  | RCat a b => if nullable false a then RAlt (RCat (deriv c a) b) (deriv c b) else RCat (deriv c a) b
  | RAlt a b => RAlt (deriv c a) (deriv c b)
  | RStar a => RCat (deriv c a) (RStar a)
  end.

(* re.Pattern.match: some PREFIX of s is in the language *)
Fixpoint re_match (r : re) (s : string) : bool :=
  match s with
  | EmptyString => nullable true r
  | String c s' => nullable false r || re_match (deriv c r) s'
  end.

(* the whole string is in the language (used only to state what prefix matching means) *)
Fixpoint re_full (r : re) (s : string) : bool :=
  match s with
  | EmptyString => nullable true r
  | String c s' => re_full (deriv c r) s'
  end.

Inductive dpat := PStr (s : string) | PRe (r : re).

Definition pat_matches (name : string) (p : dpat) : bool :=
  match p with PStr s => String.eqb name s | PRe r => re_match r name end.

(* None = _any_dtype *)
Definition cat_accepts (dtypes : option (list dpat)) (name : string) : bool :=
  match dtypes with None => true | Some l => existsb (pat_matches name) l end.

Definition accepts_facets (dtypes : option (list dpat)) (f : facets) : verdict :=
  match dtypes, extract_name f with
  | _, NAttributeError => Raise OtherExc
  | d, NName n => if cat_accepts d n then Acc else Rej
  end.

(* rendering of a regex in Python syntax (used by the harness through vm_compute) *)
Fixpoint show_re (r : re) : string :=
  match r with
  | RNone => "[^\s\S]" | REps => "" | REnd => "$"
  | RChr c => String c ""
  | RAny => "."
  | RCat a b => show_re a ++ show_re b
  | RAlt a b => "(?:" ++ show_re a ++ "|" ++ show_re b ++ ")"
  | RStar a => "(?:" ++ show_re a ++ ")*"
  end.

Definition show_nameres (n : nameres) : string := match n with NName s => "name:" ++ s | NAttributeError => "AttributeError" end.

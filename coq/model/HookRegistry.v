(* HookRegistry.v -- a design alternative to the patch around get_code, kept in the model to state what is wrong with it:
   instead of installing the jaxtyping tag for the duration of ONE load (jaxtyping/_import_hook.py, _JaxtypingLoader.get_code),
   a process-wide function picks the tag by SOURCE FILE: every _JaxtypingLoader registers its file, nothing is ever unregistered.
   A process is a list of phases (hook configurations, source states) that share the registry: the hook installed, later
   uninstalled, modules imported again.  "Hooked or not" is a property of the load, not of the file: the two designs agree on
   every process that consists of one phase and disagree on a continuation (proofs/HookRegistryFacts.v). *)
From JT Require Export model.HookCache.
Open Scope string_scope.

Record gstate := mkgs { g_rs : rstate; g_reg : alist string (* source file (module) -> typechecker hash it was registered with *) }.

Section Phase.
Variable r : runcfg.

Fixpoint load_reg (fuel : nat) (m : string) (s : gstate) : gstate :=
  match fuel with
  | O => s
  | S fuel' =>
      if is_done (g_rs s) m then s
      else
        let hk := aget (r_hooked r) m in
        let reg' := match hk with Some h => (m, h) :: g_reg s | None => g_reg s end in      (* the loader's constructor registers the file *)
        let tag := match aget reg' m with Some h => J h | None => Plain end in               (* the dispatcher looks the file up *)
        let fresh := match hk with Some h => Instr h | None => Uninstr end in
        let '(ran, c') :=
          match cget (rs_cache (g_rs s)) m tag with
          | Some (v, k) => if Nat.eqb v (src_of r m) then ((k, v), rs_cache (g_rs s))
                           else ((fresh, src_of r m), cset (rs_cache (g_rs s)) m tag (src_of r m, fresh))
          | None => ((fresh, src_of r m), cset (rs_cache (g_rs s)) m tag (src_of r m, fresh))
          end in
        let s1 := mkgs (mkrs c' ((m, ran) :: rs_done (g_rs s))) reg' in
        fold_left (fun st d => load_reg fuel' d st) (deps_of r m) s1
  end.

(* one phase: sys.modules of the forest is empty again, the registry and the cache directory are what the process left *)
Definition phase_reg (c : cache) (reg : alist string) : gstate :=
  fold_left (fun st m => load_reg (S (length (r_src r))) m st) (r_order r) (mkgs (mkrs c []) reg).
End Phase.

(* a process: phases sharing the registry; returns what each phase executed, and the cache it leaves *)
Fixpoint process_reg (ps : list runcfg) (c : cache) (reg : alist string) : list (list (string * (ckind * nat))) * cache :=
  match ps with
  | [] => ([], c)
  | r :: rest => let s := phase_reg r c reg in
                 let '(ds, c') := process_reg rest (rs_cache (g_rs s)) (g_reg s) in
                 (rev (rs_done (g_rs s)) :: ds, c')
  end.

(* the design in the source (patch around get_code): a continuation is one more run *)
Fixpoint process_getcode (ps : list runcfg) (c : cache) : list (list (string * (ckind * nat))) * cache :=
  match ps with
  | [] => ([], c)
  | r :: rest => let s := run_once false r c in
                 let '(ds, c') := process_getcode rest (rs_cache s) in
                 (rev (rs_done s) :: ds, c')
  end.

(* SL.v -- a deep embedding of the Python fragment in which the accessor functions of jaxtyping/_storage.py are
   written (the context stack, the '?'-leaf position, the flatten mode), with an interpreter over ONE thread's view of
   the three threading.local() cells.  translator/tr_pyl_storage.py turns every accessor's AST into a term of this
   language on every run (gen/StorageSrc.v); proofs/SLFacts.v proves that interpreting THOSE terms is exactly the
   stack / label / flag operation that model/Check.v, model/PyTreeCheck.v, model/Prog.v and model/Threads.v take as
   the meaning of the accessor (push_memo, pop_memo, top_frame, set_top, with_path, with_flat).
   Python values are abstracted as far as these functions can observe them: dictionaries carry the model's own data
   and are never inspected here; f-strings are rendered like Python renders str and int.  No proofs here. *)
From JT Require Export model.PyTreeCheck.
Open Scope string_scope.

(* what a dict may hold, as far as the model cares; `{}` is DEmpty in whatever position it is used *)
Inductive dict :=
| DEmpty
| DSingle (m : alist Z) | DVar (m : alist (bool * list Z)) | DTree (m : alist tdef) | DArgs (m : alist Z).

Inductive sval :=
| SVNone | SVBool (b : bool) | SVStr (s : string) | SVInt (z : Z)
| SVDict (d : dict)
| SVTuple (l : list sval)
| SVList (l : list sval)        (* a list object not (yet) stored anywhere *)
| SVStackRef.                   (* THE list object held by _shape_storage.memo_stack (aliases stay aliases) *)

Inductive sexn := XAnnotation | XAttribute | XIndex | XOther | XBase.    (* XBase: a BaseException that is not an Exception *)

(* one thread's view of the three cells; None = the attribute does not exist (yet) on that thread's local object *)
Record tls := mktls {
  t_stack : option (list sval);         (* _shape_storage.memo_stack, Python order: the top frame is LAST *)
  t_path : option sval;                 (* _treepath_storage.value *)
  t_flat : option sval }.               (* _treeflatten_storage.value *)

Definition with_stack (s : tls) (l : option (list sval)) : tls := mktls l (t_path s) (t_flat s).

Inductive sexpr :=
| EName (x : string) | ENone | EBool (b : bool) | EStr (s : string) | EInt (z : Z)
| EHasAttr (c a : string)                 (* hasattr(c, "a") *)
| EAttr (c a : string)                    (* c.a *)
| ELen (e : sexpr)
| ENe (a b : sexpr)
| EIs (a b : sexpr) | EIsNot (a b : sexpr)
| EAnd (a b : sexpr) | EOr (a b : sexpr) | ENot (a : sexpr)
| ECall (f : string) (args : list sexpr)   (* f(args): another accessor of the module *)
| ELast (e : sexpr)                       (* e[-1] *)
| ETuple (l : list sexpr)
| EDict                                   (* {} *)
| EList                                   (* [] *)
| ECopy (e : sexpr)                       (* e.copy() *)
| EFStr (pieces : list (string + sexpr))  (* f"...{e}..." *)
| EEq (a b : sexpr)                       (* a == b on strings *)
| EExtern (f : string) (args : list sexpr). (* a call out of the fragment (cls._check_shape, cls._check): see `extern` *)

Inductive sstmt :=
| SReturn (e : sexpr)
| SIf (c : sexpr) (t e : list sstmt)
| SAssign (x : string) (e : sexpr)
| SUnpack (xs : list string) (e : sexpr)              (* a, b, c, d = e *)
| SSetAttr (c a : string) (e : sexpr)                 (* c.a = e *)
| SAssignBoth (x c a : string) (e : sexpr)            (* x = c.a = e *)
| SSetLast (c a : string) (e : sexpr)                 (* c.a[-1] = e *)
| SAppend (x : string) (e : sexpr)                    (* x.append(e) *)
| SPopAttr (c a : string)                             (* c.a.pop() *)
| SExpr (e : sexpr)                                   (* an expression statement (a call) *)
| STryAttr (body handler : list sstmt)                (* try: body / except AttributeError: handler *)
| STryAll (body handler : list sstmt)                 (* try: body / except BaseException: handler; raise *)
| STryFinally (body fin : list sstmt)                 (* try: body / finally: fin *)
| STryExc (e : string) (body handler : list sstmt)    (* try: body / except Exception as e: handler; raise *)
| SForEnum (i x : string) (e : sexpr) (body : list sstmt)   (* for i, x in enumerate(e): body *)
| SRaise (e : sexn).

Record sfun := mkfun { f_params : list string; f_body : list sstmt }.

Definition senv := string -> option sval.
Definition supd (env : senv) (x : string) (v : sval) : senv := fun y => if String.eqb x y then Some v else env y.

Inductive slres := SRVal (v : sval) | SRExn (e : sexn).
Inductive sout := SONormal (env : senv) (s : tls) | SOReturn (v : sval) (s : tls) | SORaise (e : sexn) (s : tls).

Definition is_stack (c a : string) : bool := String.eqb c "_shape_storage" && String.eqb a "memo_stack".
Definition is_path (c a : string) : bool := String.eqb c "_treepath_storage" && String.eqb a "value".
Definition is_flat (c a : string) : bool := String.eqb c "_treeflatten_storage" && String.eqb a "value".

Definition get_attr (s : tls) (c a : string) : option sval :=
  if is_stack c a then option_map (fun _ => SVStackRef) (t_stack s)
  else if is_path c a then t_path s
  else if is_flat c a then t_flat s
  else None.

(* c.a = v; the stack attribute only ever holds a list *)
Definition set_attr (s : tls) (c a : string) (v : sval) : option tls :=
  if is_stack c a then
    match v with
    | SVList l => Some (mktls (Some l) (t_path s) (t_flat s))
    | SVStackRef => Some s
    | _ => None
    end
  else if is_path c a then Some (mktls (t_stack s) (Some v) (t_flat s))
  else if is_flat c a then Some (mktls (t_stack s) (t_path s) (Some v))
  else None.

Definition fmt (v : sval) : option string :=
  match v with
  | SVStr x => Some x
  | SVInt z => Some (zs z)
  | SVNone => Some "None"
  | SVBool b => Some (if b then "True" else "False")
  | _ => None
  end.

Definition set_last (l : list sval) (v : sval) : list sval := (removelast l ++ [v])%list.

Section Interp.
(* another accessor: its result and the store afterwards *)
Variable call : string -> list sval -> tls -> option (slres * tls).
(* code outside the fragment (the shape check, the PyTree walk): ANY function of its arguments and the store *)
Variable extern : string -> list sval -> tls -> slres * tls.

(* expressions of this fragment never change the store except through ECall *)
Fixpoint eval (env : senv) (s : tls) (e : sexpr) {struct e} : slres * tls :=
  let truth (r : slres * tls) (k : bool -> tls -> slres * tls) : slres * tls :=
    match r with
    | (SRVal (SVBool b), s') => k b s'
    | (SRVal _, s') => (SRExn XOther, s')
    | (SRExn x, s') => (SRExn x, s')
    end in
  match e with
  | EName x => match env x with Some v => (SRVal v, s) | None => (SRExn XOther, s) end
  | ENone => (SRVal SVNone, s)
  | EBool b => (SRVal (SVBool b), s)
  | EStr x => (SRVal (SVStr x), s)
  | EInt z => (SRVal (SVInt z), s)
  | EHasAttr c a => (SRVal (SVBool (match get_attr s c a with Some _ => true | None => false end)), s)
  | EAttr c a => match get_attr s c a with Some v => (SRVal v, s) | None => (SRExn XAttribute, s) end
  | ELen a =>
      match eval env s a with
      | (SRVal SVStackRef, s') => (match t_stack s' with Some l => SRVal (SVInt (Z.of_nat (length l))) | None => SRExn XOther end, s')
      | (SRVal (SVList l), s') | (SRVal (SVTuple l), s') => (SRVal (SVInt (Z.of_nat (length l))), s')
      | (SRVal _, s') => (SRExn XOther, s')
      | r => r
      end
  | ENe a b =>
      match eval env s a with
      | (SRVal (SVInt x), s') =>
          match eval env s' b with
          | (SRVal (SVInt y), s'') => (SRVal (SVBool (negb (x =? y)%Z)), s'')
          | (SRVal _, s'') => (SRExn XOther, s'')
          | r => r
          end
      | (SRVal (SVStr x), s') =>
          match eval env s' b with
          | (SRVal (SVStr y), s'') => (SRVal (SVBool (negb (String.eqb x y))), s'')
          | (SRVal _, s'') => (SRExn XOther, s'')
          | r => r
          end
      | (SRVal _, s') => (SRExn XOther, s')
      | r => r
      end
  | EIs a b =>
      match eval env s a with
      | (SRVal va, s') =>
          match eval env s' b with
          | (SRVal SVNone, s'') => (SRVal (SVBool (match va with SVNone => true | _ => false end)), s'')
          | (SRVal _, s'') => (SRExn XOther, s'')           (* identity with anything but None is outside the fragment *)
          | r => r
          end
      | r => r
      end
  | EIsNot a b =>
      match eval env s a with
      | (SRVal va, s') =>
          match eval env s' b with
          | (SRVal SVNone, s'') => (SRVal (SVBool (match va with SVNone => false | _ => true end)), s'')
          | (SRVal _, s'') => (SRExn XOther, s'')
          | r => r
          end
      | r => r
      end
  | EAnd a b => truth (eval env s a) (fun x s' => if x then truth (eval env s' b) (fun y s'' => (SRVal (SVBool y), s'')) else (SRVal (SVBool false), s'))
  | EOr a b => truth (eval env s a) (fun x s' => if x then (SRVal (SVBool true), s') else truth (eval env s' b) (fun y s'' => (SRVal (SVBool y), s'')))
  | ENot a => truth (eval env s a) (fun x s' => (SRVal (SVBool (negb x)), s'))
  | ECall f args =>
      (fix go (l : list sexpr) (s : tls) (acc : list sval) : slres * tls :=
         match l with
         | [] => match call f (rev acc) s with Some r => r | None => (SRExn XOther, s) end
         | a :: r => match eval env s a with
                     | (SRVal v, s') => go r s' (v :: acc)
                     | (SRExn x, s') => (SRExn x, s')
                     end
         end) args s []
  | ELast a =>
      match eval env s a with
      | (SRVal SVStackRef, s') =>
          (match t_stack s' with
           | Some [] => SRExn XIndex
           | Some l => SRVal (last l SVNone)
           | None => SRExn XOther
           end, s')
      | (SRVal (SVList l), s') | (SRVal (SVTuple l), s') => (match l with [] => SRExn XIndex | _ => SRVal (last l SVNone) end, s')
      | (SRVal _, s') => (SRExn XOther, s')
      | r => r
      end
  | ETuple l =>
      (fix go (l : list sexpr) (s : tls) (acc : list sval) : slres * tls :=
         match l with
         | [] => (SRVal (SVTuple (rev acc)), s)
         | a :: r => match eval env s a with
                     | (SRVal v, s') => go r s' (v :: acc)
                     | (SRExn x, s') => (SRExn x, s')
                     end
         end) l s []
  | EEq a b =>
      match eval env s a with
      | (SRVal (SVStr x), s') =>
          match eval env s' b with
          | (SRVal (SVStr y), s'') => (SRVal (SVBool (String.eqb x y)), s'')
          | (SRVal _, s'') => (SRExn XOther, s'')
          | r => r
          end
      | (SRVal _, s') => (SRExn XOther, s')
      | r => r
      end
  | EExtern f args =>
      (fix go (l : list sexpr) (s : tls) (acc : list sval) : slres * tls :=
         match l with
         | [] => extern f (rev acc) s
         | a :: r => match eval env s a with
                     | (SRVal v, s') => go r s' (v :: acc)
                     | (SRExn x, s') => (SRExn x, s')
                     end
         end) args s []
  | EDict => (SRVal (SVDict DEmpty), s)
  | EList => (SRVal (SVList []), s)
  | ECopy a =>
      match eval env s a with
      | (SRVal (SVDict d), s') => (SRVal (SVDict d), s')          (* a dict with the same contents *)
      | (SRVal _, s') => (SRExn XOther, s')
      | r => r
      end
  | EFStr ps =>
      (fix go (ps : list (string + sexpr)) (s : tls) (acc : string) : slres * tls :=
         match ps with
         | [] => (SRVal (SVStr acc), s)
         | inl t :: r => go r s (acc ++ t)
         | inr a :: r => match eval env s a with
                         | (SRVal v, s') => match fmt v with Some t => go r s' (acc ++ t) | None => (SRExn XOther, s') end
                         | (SRExn x, s') => (SRExn x, s')
                         end
         end) ps s ""
  end.

Fixpoint bind_names (env : senv) (xs : list string) (vs : list sval) : option senv :=
  match xs, vs with
  | [], [] => Some env
  | x :: xr, v :: vr => bind_names (supd env x v) xr vr
  | _, _ => None
  end.

(* for i, x in enumerate(l): body -- the loop over the list, with the body's meaning as a parameter *)
Fixpoint for_enum (body : senv -> tls -> sout) (i x : string) (l : list sval) (k : nat) (env : senv) (s : tls) : sout :=
  match l with
  | [] => SONormal env s
  | v :: r =>
      match body (supd (supd env i (SVInt (Z.of_nat k))) x v) s with
      | SONormal env' s' => for_enum body i x r (S k) env' s'
      | o => o
      end
  end.

Fixpoint exec (env : senv) (s : tls) (st : sstmt) {struct st} : sout :=
  let exec_list :=
    (fix exec_list (env : senv) (s : tls) (l : list sstmt) {struct l} : sout :=
       match l with
       | [] => SONormal env s
       | x :: r => match exec env s x with
                   | SONormal env' s' => exec_list env' s' r
                   | o => o
                   end
       end) in
  match st with
  | SReturn e => match eval env s e with (SRVal v, s') => SOReturn v s' | (SRExn x, s') => SORaise x s' end
  | SIf c t e =>
      match eval env s c with
      | (SRVal (SVBool true), s') => exec_list env s' t
      | (SRVal (SVBool false), s') => exec_list env s' e
      | (SRVal _, s') => SORaise XOther s'
      | (SRExn x, s') => SORaise x s'
      end
  | SAssign x e => match eval env s e with (SRVal v, s') => SONormal (supd env x v) s' | (SRExn x', s') => SORaise x' s' end
  | SUnpack xs e =>
      match eval env s e with
      | (SRVal (SVTuple vs), s') => match bind_names env xs vs with Some env' => SONormal env' s' | None => SORaise XOther s' end
      | (SRVal _, s') => SORaise XOther s'
      | (SRExn x, s') => SORaise x s'
      end
  | SSetAttr c a e =>
      match eval env s e with
      | (SRVal v, s') => match set_attr s' c a v with Some s'' => SONormal env s'' | None => SORaise XOther s' end
      | (SRExn x, s') => SORaise x s'
      end
  | SAssignBoth x c a e =>
      match eval env s e with
      | (SRVal v, s') =>
          match set_attr s' c a v with
          | Some s'' => SONormal (supd env x (if is_stack c a then SVStackRef else v)) s''
          | None => SORaise XOther s'
          end
      | (SRExn x', s') => SORaise x' s'
      end
  | SSetLast c a e =>
      match eval env s e with
      | (SRVal v, s') =>
          if is_stack c a then
            match t_stack s' with
            | None => SORaise XAttribute s'
            | Some [] => SORaise XIndex s'
            | Some l => SONormal env (with_stack s' (Some (set_last l v)))
            end
          else SORaise XOther s'
      | (SRExn x, s') => SORaise x s'
      end
  | SAppend x e =>
      match env x with
      | Some SVStackRef =>
          match eval env s e with
          | (SRVal v, s') => match t_stack s' with Some l => SONormal env (with_stack s' (Some (l ++ [v])%list)) | None => SORaise XOther s' end
          | (SRExn x', s') => SORaise x' s'
          end
      | _ => SORaise XOther s
      end
  | SPopAttr c a =>
      if is_stack c a then
        match t_stack s with
        | None => SORaise XAttribute s
        | Some [] => SORaise XIndex s
        | Some l => SONormal env (with_stack s (Some (removelast l)))
        end
      else SORaise XOther s
  | SExpr e => match eval env s e with (SRVal _, s') => SONormal env s' | (SRExn x, s') => SORaise x s' end
  | STryAttr body handler =>
      match exec_list env s body with
      | SORaise XAttribute s' => exec_list env s' handler
      | o => o
      end
  | STryAll body handler =>
      match exec_list env s body with
      | SORaise x s' =>
          match exec_list env s' handler with
          | SONormal _ s'' => SORaise x s''          (* the handler ends in a bare `raise` *)
          | o => o
          end
      | o => o
      end
  | STryExc e body handler =>
      match exec_list env s body with
      | SORaise XBase s' => SORaise XBase s'                    (* not an Exception: passes through *)
      | SORaise x s' =>
          match exec_list (supd env e SVNone) s' handler with   (* the exception object itself is opaque *)
          | SONormal _ s'' => SORaise x s''                     (* the handler ends in a bare `raise` *)
          | o => o
          end
      | o => o
      end
  | STryFinally body fin =>
      let after (s' : tls) (o : sout) : sout :=
        match exec_list env s' fin with
        | SONormal _ s'' => match o with
                            | SONormal env' _ => SONormal env' s''
                            | SOReturn v _ => SOReturn v s''
                            | SORaise x _ => SORaise x s''
                            end
        | o' => o'                                   (* the finally block itself returned or raised *)
        end in
      match exec_list env s body with
      | SONormal env' s' => after s' (SONormal env' s')
      | SOReturn v s' => after s' (SOReturn v s')
      | SORaise x s' => after s' (SORaise x s')
      end
  | SForEnum i x e body =>
      match eval env s e with
      | (SRVal (SVList l), s') => for_enum (fun env' s'' => exec_list env' s'' body) i x l O env s'
      | (SRVal _, s') => SORaise XOther s'
      | (SRExn x', s') => SORaise x' s'
      end
  | SRaise x => SORaise x s
  end.

Fixpoint exec_list (env : senv) (s : tls) (l : list sstmt) {struct l} : sout :=
  match l with
  | [] => SONormal env s
  | x :: r => match exec env s x with
              | SONormal env' s' => exec_list env' s' r
              | o => o
              end
  end.

Definition run_fun (f : sfun) (args : list sval) (s : tls) : option (slres * tls) :=
  match bind_names (fun _ => None) (f_params f) args with
  | None => None                                                      (* wrong number of arguments *)
  | Some env =>
      Some (match exec_list env s (f_body f) with
            | SONormal _ s' => (SRVal SVNone, s')
            | SOReturn v s' => (SRVal v, s')
            | SORaise x s' => (SRExn x, s')
            end)
  end.
End Interp.

(* a module: its functions by name; calls between them nest at most three deep (__enter__ -> push_shape_memo;
   get_shape_memo -> _has_shape_memo), deeper calls are outside the fragment *)
Definition smodule := list (string * sfun).
Fixpoint find_fun (m : smodule) (f : string) : option sfun :=
  match m with [] => None | (n, x) :: r => if String.eqb n f then Some x else find_fun r f end.

Definition extern_t := string -> list sval -> tls -> slres * tls.
Definition no_extern : extern_t := fun _ _ s => (SRExn XOther, s).

Fixpoint run_depth (ext : extern_t) (m : smodule) (n : nat) (f : string) (args : list sval) (s : tls) : option (slres * tls) :=
  match n with
  | O => None
  | S k => match find_fun m f with Some x => run_fun (run_depth ext m k) ext x args s | None => None end
  end.

(* the accessors call nothing outside the fragment *)
Definition run_acc (m : smodule) (f : string) (args : list sval) (s : tls) : option (slres * tls) := run_depth no_extern m 3 f args s.
Definition run_ext (ext : extern_t) (m : smodule) (f : string) (args : list sval) (s : tls) : option (slres * tls) := run_depth ext m 3 f args s.

(* ---------- the abstraction to the store of PyTreeCheck.v ---------- *)
Definition dS (d : dict) : alist Z := match d with DSingle m => m | _ => [] end.
Definition dV (d : dict) : alist (bool * list Z) := match d with DVar m => m | _ => [] end.
Definition dT (d : dict) : alist tdef := match d with DTree m => m | _ => [] end.
Definition dA (d : dict) : alist Z := match d with DArgs m => m | _ => [] end.

Definition dec_frame (v : sval) : memo * alist tdef :=
  match v with
  | SVTuple [SVDict a; SVDict b; SVDict c; SVDict d] => (mkmemo (dS a) (dV b) (dA d), dT c)
  | _ => (empty_memo, [])
  end.

Definition stack_or_nil (s : tls) : list sval := match t_stack s with Some l => l | None => [] end.

Definition abs_store (s : tls) : pstore :=
  mkps (rev (map dec_frame (stack_or_nil s)))
       (match t_path s with Some (SVStr p) => Some p | _ => None end)
       (match t_flat s with Some (SVBool b) => b | _ => false end).

(* ---------- rendering, for the correspondence check ---------- *)
Fixpoint show_sval (v : sval) : string :=
  match v with
  | SVNone => "None" | SVBool b => if b then "True" else "False" | SVStr x => "'" ++ x ++ "'" | SVInt z => zs z
  | SVDict DEmpty => "{}" | SVDict (DArgs m) => "{" ++ sep_concat "," (map (fun kv => fst kv ++ ":" ++ zs (snd kv)) m) ++ "}"
  | SVDict _ => "{..}"
  | SVTuple l => "(" ++ sep_concat "," (map show_sval l) ++ ")"
  | SVList l => "[" ++ sep_concat "," (map show_sval l) ++ "]"
  | SVStackRef => "<stack>"
  end.
Definition show_sexn (x : sexn) : string :=
  match x with XAnnotation => "AnnotationError" | XAttribute => "AttributeError" | XIndex => "IndexError" | XOther => "Other" | XBase => "BaseException" end.
Definition show_tls (s : tls) : string :=
  "stack=" ++ match t_stack s with None => "-" | Some l => "[" ++ sep_concat "," (map show_sval l) ++ "]" end ++
  " path=" ++ match t_path s with None => "-" | Some v => show_sval v end ++
  " flat=" ++ match t_flat s with None => "-" | Some v => show_sval v end.

(* ---------- op sequences, for the correspondence check against the real module ---------- *)
Inductive sop :=
| OHas | OGet | OSet (a b c d : dict) | OPush (d : dict) | OPop
| OClearPath | OSetPath (i : option Z) (t : string) | OGetPath
| OClearFlat | OSetFlat | OGetFlat
| OEnter | OExit.

Definition op_call (o : sop) : string * list sval :=
  match o with
  | OHas => ("_has_shape_memo", [])
  | OGet => ("get_shape_memo", [])
  | OSet a b c d => ("set_shape_memo", [SVDict a; SVDict b; SVDict c; SVDict d])
  | OPush d => ("push_shape_memo", [SVDict d])
  | OPop => ("pop_shape_memo", [])
  | OClearPath => ("clear_treepath_memo", [])
  | OSetPath i t => ("set_treepath_memo", [match i with Some z => SVInt z | None => SVNone end; SVStr t])
  | OGetPath => ("get_treepath_memo", [])
  | OClearFlat => ("clear_treeflatten_memo", [])
  | OSetFlat => ("set_treeflatten_memo", [])
  | OGetFlat => ("get_treeflatten_memo", [])
  | OEnter => ("__enter__", [SVNone])
  | OExit => ("__exit__", [SVNone; SVNone; SVNone; SVNone])
  end.

Definition show_sres (r : slres) : string := match r with SRVal v => show_sval v | SRExn x => "raise:" ++ show_sexn x end.

Fixpoint run_ops (m : smodule) (ops : list sop) (s : tls) : list string :=
  match ops with
  | [] => []
  | o :: r =>
      let '(f, args) := op_call o in
      match run_acc m f args s with
      | Some (res, s') => (show_sres res ++ " | " ++ show_tls s') :: run_ops m r s'
      | None => ["no-such-function " ++ f]
      end
  end.

(* ---------- scripted stand-ins for the code outside the fragment, for the correspondence check of the translated
   fragments of _MetaPyTree._check against CPython running the very same statements ---------- *)
Definition dict_bind (d : dict) (k : string) (z : Z) : dict :=
  match d with DEmpty => DArgs [(k, z)] | DArgs m => DArgs (aset m k z) | x => x end.

(* what an in-place mutation of the live dictionaries of the top frame looks like in the store *)
Definition upd_top (s : tls) (f : sval -> sval) : tls :=
  match t_stack s with
  | Some (x :: l) => with_stack s (Some (set_last (x :: l) (f (last (x :: l) SVNone))))
  | _ => s
  end.
Definition bind_in_frame (slot : nat) (k : string) (z : Z) (fr : sval) : sval :=
  match fr with
  | SVTuple [SVDict a; SVDict b; SVDict c; SVDict d] =>
      match slot with
      | O => SVTuple [SVDict (dict_bind a k z); SVDict b; SVDict c; SVDict d]
      | _ => SVTuple [SVDict a; SVDict b; SVDict (dict_bind c k z); SVDict d]
      end
  | x => x
  end.

Definition script_ext : extern_t := fun f args s =>
  let ok := if String.eqb f "_check_shape" then SVStr "" else SVBool true in
  let no := if String.eqb f "_check_shape" then SVStr "msg" else SVBool false in
  let slot := if String.eqb f "_check_shape" then O else 2%nat in
  match args with
  | SVInt 0 :: _ => (if String.eqb f "tree_flatten" then SRVal (SVTuple [SVList []; SVNone]) else SRVal ok, s)
  | SVInt 1 :: _ => (SRVal no, s)
  | SVInt 2 :: _ => (SRExn XAnnotation, s)
  | SVInt 3 :: _ => (SRExn XOther, s)
  | SVInt 4 :: _ => (SRExn XBase, s)
  | SVInt 5 :: _ => (SRVal (SVBool true), mktls (t_stack s) (Some (SVStr "x")) (t_flat s))       (* leaves a label behind *)
  | SVInt 6 :: _ => (SRVal (SVBool true), mktls (t_stack s) (t_path s) (Some (SVBool false)))    (* a nested check's finally *)
  | SVInt 7 :: _ => (SRVal (SVTuple [SVList []; SVNone]), mktls (t_stack s) (t_path s) (Some (SVBool false)))
  | SVInt 8 :: _ => (SRVal ok, upd_top s (bind_in_frame slot "n" 3))                              (* binds in place, succeeds *)
  | SVInt 9 :: _ => (SRVal no, upd_top s (bind_in_frame slot "n" 3))                              (* binds in place, then fails *)
  | SVInt 10 :: _ => (SRExn XOther, upd_top s (bind_in_frame slot "n" 3))
  | SVInt 11 :: _ => (SRExn XBase, upd_top s (bind_in_frame slot "n" 3))
  | _ => (SRExn XOther, s)
  end.

Fixpoint state_after_ops (m : smodule) (ops : list sop) (s : tls) : tls :=
  match ops with
  | [] => s
  | o :: r => let '(f, args) := op_call o in
              match run_acc m f args s with Some (_, s') => state_after_ops m r s' | None => s end
  end.

Definition run_fragment (m : smodule) (pre : list sop) (f : string) (args : list sval) : string :=
  match run_ext script_ext m f args (state_after_ops m pre (mktls None None None)) with
  | Some (res, s') => show_sres res ++ " | " ++ show_tls s'
  | None => "no-such-function " ++ f
  end.

(* scripted stand-ins for everything the decorated-call wrapper calls out to; the scenario number says what each of them does *)
Definition script_ext_w (sc : Z) : extern_t := fun f args s =>
  let bit (n : Z) : bool := Z.odd (sc / n) in
  if String.eqb f "config.jaxtyping_disable" then (SRVal (SVBool (bit 1)), s)
  else if String.eqb f "getattr" then
    match args with
    | SVStr "fn" :: _ => (SRVal (SVBool (bit 2)), s)
    | SVStr "wrapper" :: _ => (SRVal (SVBool (bit 4)), s)
    | _ => (SRExn XOther, s)
    end
  else if String.eqb f "wrapped_fn_holder[0]" then (SRVal (SVStr "wrapper"), s)
  else if String.eqb f "fn" then (if bit 64 then SRExn XOther else SRVal (SVInt 9), s)
  else if String.eqb f "param_signature.bind" then (if bit 8 then SRExn XOther else SRVal (SVStr "bound"), s)
  else if String.eqb f "bound.apply_defaults" then (SRVal SVNone, s)
  else if String.eqb f "bound.arguments" then (SRVal (SVDict (DArgs [("k", 2%Z)])), s)
  else if String.eqb f "wrapped_fn_impl" then
    match ((sc / 16) mod 4)%Z with
    | 0%Z => (SRVal (SVInt 7), s)
    | 1%Z => (SRExn XOther, s)
    | 2%Z => (SRExn XBase, s)
    | _ => (SRVal (SVInt 7), upd_top s (bind_in_frame 0 "n" 3))
    end
  else (SRExn XOther, s).

Definition frame_has_bindings (args : list sval) : bool :=
  match args with
  | [SVTuple [SVDict DEmpty; SVDict DEmpty; SVDict DEmpty; _]] => false
  | _ => true
  end.

Definition script_ext_o (sc : Z) : extern_t := fun f args s =>
  let bit (n : Z) : bool := Z.odd (sc / n) in
  if String.eqb f "signature.bind" then (if bit 8 then SRExn XOther else SRVal (SVStr "bound"), s)
  else if String.eqb f "bound.apply_defaults" then (SRVal SVNone, s)
  else if String.eqb f "bound.arguments" then (SRVal (SVDict (DArgs [("k", 2%Z)])), s)
  else if String.eqb f "fn" then
    match ((sc / 16) mod 4)%Z with
    | 0%Z => (SRVal (SVInt 9), s)
    | 1%Z => (SRExn XOther, s)
    | 2%Z => (SRExn XBase, s)
    | _ => (SRExn XOther, upd_top s (bind_in_frame 0 "n" 3))
    end
  else if String.eqb f "sys.version_info >= (3, 11)" then (SRVal (SVBool true), s)
  else if String.eqb f "_no_jaxtyping_note" then (SRVal (SVBool true), s)
  else if String.eqb f "shape_str" then (SRVal (SVStr (if frame_has_bindings args then "bindings" else "")), s)
  else (SRVal SVNone, s).

Definition run_fragment_w (sc : Z) (m : smodule) (pre : list sop) (f : string) (args : list sval) : string :=
  match run_ext (if String.eqb f "old_wrapped_fn" then script_ext_o sc else script_ext_w sc) m f args (state_after_ops m pre (mktls None None None)) with
  | Some (res, s') => show_sres res ++ " | " ++ show_tls s'
  | None => "no-such-function " ++ f
  end.

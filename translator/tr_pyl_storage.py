"""jaxtyping/_storage.py accessor functions -> coq/gen/StorageSrc.v (terms of model/SL.v).
Construct by construct, fail-closed: anything outside the fragment listed in model/SL.v raises Bad.  String literals that are
only ever the argument of an exception constructor are dropped (the exception CLASS is kept); every other literal is verbatim."""
import ast, os


class Bad(Exception):
    pass


ACCESSORS = ["_has_shape_memo", "get_shape_memo", "set_shape_memo", "push_shape_memo", "pop_shape_memo",
             "clear_treepath_memo", "set_treepath_memo", "get_treepath_memo",
             "clear_treeflatten_memo", "set_treeflatten_memo", "get_treeflatten_memo"]
CELLS = ("_shape_storage", "_treepath_storage", "_treeflatten_storage")
EXN = {"AnnotationError": "XAnnotation", "AttributeError": "XAttribute", "IndexError": "XIndex"}


def q(s):
    if any(ord(c) > 126 or ord(c) < 32 for c in s):
        raise Bad("non-printable character in a string literal")
    return '"' + s.replace('"', '""') + '"'


def cell_attr(n):
    """c.a with c one of the module's thread-local cells"""
    if isinstance(n, ast.Attribute) and isinstance(n.value, ast.Name) and n.value.id in CELLS:
        return n.value.id, n.attr
    return None


STATE = {"aliases": set(), "tainted": False, "generic": False}      # generic: calls / attribute reads out of the fragment allowed (wrapped_fn)


def expr(n, params, locs):
    E = lambda x: expr(x, params, locs)
    if isinstance(n, ast.Constant):
        if n.value is None:
            return "ENone"
        if isinstance(n.value, bool):
            return "(EBool %s)" % ("true" if n.value else "false")
        if isinstance(n.value, int):
            return "(EInt %d)" % n.value if n.value >= 0 else "(EInt (%d))" % n.value
        if isinstance(n.value, str):
            return "(EStr %s)" % q(n.value)
        raise Bad("constant %r" % (n.value,))
    if isinstance(n, ast.Name):
        if n.id in params or n.id in locs:
            if STATE["tainted"] and n.id in STATE["aliases"]:
                # the dictionaries unpacked from get_shape_memo() are mutated in place by the code outside the fragment; the
                # embedding holds VALUES, so reading such a name after the outside call would see stale contents: not translatable
                raise Bad("%s (an alias of a live memo dictionary) is read after the call out of the fragment" % n.id)
            return "(EName %s)" % q(n.id)
        raise Bad("name %s is neither a parameter nor a local" % n.id)
    ca = cell_attr(n)
    if ca:
        return "(EAttr %s %s)" % (q(ca[0]), q(ca[1]))
    if isinstance(n, ast.Attribute) and isinstance(n.value, ast.Name) and n.value.id == "cls" and n.attr == "structure" and "structure" in params:
        return '(EName "structure")'                      # the annotation's structure name: a parameter of the fragment
    if isinstance(n, ast.Call):
        f = n.func
        if isinstance(f, ast.Name) and f.id == "hasattr" and len(n.args) == 2 and not n.keywords and isinstance(n.args[0], ast.Name) and n.args[0].id in CELLS \
                and isinstance(n.args[1], ast.Constant) and isinstance(n.args[1].value, str):
            return "(EHasAttr %s %s)" % (q(n.args[0].id), q(n.args[1].value))
        if isinstance(f, ast.Name) and f.id == "len" and len(n.args) == 1 and not n.keywords:
            return "(ELen %s)" % E(n.args[0])
        if isinstance(f, ast.Name) and f.id in ACCESSORS and not n.keywords and not any(isinstance(a, ast.Starred) for a in n.args):
            return "(ECall %s [%s])" % (q(f.id), "; ".join(E(a) for a in n.args))
        if isinstance(f, ast.Attribute) and f.attr == "copy" and not n.args and not n.keywords:
            return "(ECopy %s)" % E(f.value)
        if isinstance(f, ast.Name) and f.id == "is_check_leaftype" and len(n.args) == 1 and not n.keywords:
            r = "(EExtern %s [%s])" % (q(f.id), E(n.args[0])); STATE["tainted"] = True
            return r
        if isinstance(f, ast.Attribute) and isinstance(f.value, ast.Name) and f.value.id == "jtu" and f.attr == "tree_flatten" and len(n.args) == 1 \
                and len(n.keywords) == 1 and n.keywords[0].arg == "is_leaf" and isinstance(n.keywords[0].value, ast.Name) and n.keywords[0].value.id == "is_flatten_leaftype":
            r = "(EExtern %s [%s])" % (q("tree_flatten"), E(n.args[0])); STATE["tainted"] = True
            return r
        if isinstance(f, ast.Attribute) and isinstance(f.value, ast.Name) and f.value.id == "cls" and f.attr in ("_check_shape", "_check") \
                and not n.keywords and not any(isinstance(a, ast.Starred) for a in n.args):
            r = "(EExtern %s [%s])" % (q(f.attr), "; ".join(E(a) for a in n.args))
            STATE["tainted"] = True
            return r
        if STATE["generic"] and not (isinstance(f, ast.Name) and f.id in ACCESSORS):
            # any other call leaves the fragment: the callee's source text names it, starred / double-starred arguments are passed as values
            args = [E(a.value) if isinstance(a, ast.Starred) else E(a) for a in n.args]
            for kw in n.keywords:
                if kw.arg is not None:
                    raise Bad("keyword argument in a call out of the fragment")
                args.append(E(kw.value))
            return "(EExtern %s [%s])" % (q(ast.unparse(f)), "; ".join(args))
        raise Bad("call %s" % ast.dump(n)[:120])
    if STATE["generic"] and isinstance(n, ast.Attribute) and isinstance(n.value, ast.Name) and n.value.id not in CELLS:
        return "(EExtern %s [])" % q(ast.unparse(n))           # reading an attribute of an object outside the fragment
    if STATE["generic"] and isinstance(n, ast.Subscript) and isinstance(n.value, ast.Name) and n.value.id not in CELLS and isinstance(n.slice, ast.Constant):
        return "(EExtern %s [])" % q(ast.unparse(n))
    if isinstance(n, ast.Compare) and len(n.ops) == 1 and (not STATE["generic"] or isinstance(n.ops[0], (ast.NotEq, ast.Is, ast.IsNot)) or
                                                          (isinstance(n.ops[0], ast.Eq) and isinstance(n.comparators[0], ast.Constant) and isinstance(n.comparators[0].value, str))):
        a, b, op = E(n.left), E(n.comparators[0]), n.ops[0]
        if isinstance(op, ast.NotEq):
            return "(ENe %s %s)" % (a, b)
        if isinstance(op, ast.Eq) and isinstance(n.comparators[0], ast.Constant) and isinstance(n.comparators[0].value, str):
            return "(EEq %s %s)" % (a, b)
        if isinstance(op, ast.Is):
            return "(EIs %s %s)" % (a, b)
        if isinstance(op, ast.IsNot):
            return "(EIsNot %s %s)" % (a, b)
        if not STATE["generic"]:
            raise Bad("comparison %s" % type(op).__name__)
    if isinstance(n, ast.BoolOp):
        k = "EAnd" if isinstance(n.op, ast.And) else "EOr"
        out = E(n.values[-1])
        for v in reversed(n.values[:-1]):
            out = "(%s %s %s)" % (k, E(v), out)
        return out
    if isinstance(n, ast.UnaryOp) and isinstance(n.op, ast.Not):
        return "(ENot %s)" % E(n.operand)
    if isinstance(n, ast.Subscript):
        i = n.slice
        if isinstance(i, ast.UnaryOp) and isinstance(i.op, ast.USub) and isinstance(i.operand, ast.Constant) and i.operand.value == 1:
            return "(ELast %s)" % E(n.value)
        raise Bad("subscript other than [-1]")
    if isinstance(n, ast.Tuple):
        return "(ETuple [%s])" % "; ".join(E(x) for x in n.elts)
    if isinstance(n, ast.Dict) and not n.keys:
        return "EDict"
    if isinstance(n, ast.List) and not n.elts:
        return "EList"
    if isinstance(n, ast.JoinedStr):
        ps = []
        for v in n.values:
            if isinstance(v, ast.Constant) and isinstance(v.value, str):
                ps.append("inl %s" % q(v.value))
            elif isinstance(v, ast.FormattedValue) and v.conversion == -1 and v.format_spec is None:
                ps.append("inr %s" % E(v.value))
            else:
                raise Bad("f-string piece")
        return "(EFStr [%s])" % "; ".join(ps)
    if STATE["generic"]:
        # any other expression is computed outside the fragment from the local values it mentions; it must not touch the storage
        names = sorted({x.id for x in ast.walk(n) if isinstance(x, ast.Name)})
        if any(x in ACCESSORS or x in CELLS for x in names):
            raise Bad("opaque expression touches the storage: %s" % ast.unparse(n)[:80])
        return "(EExtern %s [%s])" % (q(ast.unparse(n)), "; ".join("(EName %s)" % q(x) for x in names if x in params or x in locs))
    raise Bad("expression %s" % ast.dump(n)[:120])


def stmts(body, params, locs):
    out = []
    for s in body:
        if isinstance(s, ast.Expr) and isinstance(s.value, ast.Constant) and isinstance(s.value.value, str):
            continue                                           # docstring
        out.append(stmt(s, params, locs))
    return "[" + ";\n   ".join(out) + "]"


def stmt(s, params, locs):
    E = lambda x: expr(x, params, locs)
    if isinstance(s, ast.Return):
        return "SReturn %s" % (E(s.value) if s.value is not None else "ENone")
    if isinstance(s, ast.If):
        return "SIf %s\n    %s\n    %s" % (E(s.test), stmts(s.body, params, locs), stmts(s.orelse, params, locs))
    if isinstance(s, ast.Assign):
        tg = s.targets
        if len(tg) == 1 and isinstance(tg[0], ast.Name):
            r = "SAssign %s %s" % (q(tg[0].id), E(s.value)); locs.add(tg[0].id); return r
        if len(tg) == 1 and isinstance(tg[0], ast.Tuple) and all(isinstance(x, ast.Name) for x in tg[0].elts):
            r = "SUnpack [%s] %s" % ("; ".join(q(x.id) for x in tg[0].elts), E(s.value))
            locs.update(x.id for x in tg[0].elts)
            if isinstance(s.value, ast.Call) and isinstance(s.value.func, ast.Name) and s.value.func.id == "get_shape_memo":
                STATE["aliases"].update(x.id for x in tg[0].elts)
            return r
        if len(tg) == 1 and cell_attr(tg[0]):
            c, a = cell_attr(tg[0])
            return "SSetAttr %s %s %s" % (q(c), q(a), E(s.value))
        if len(tg) == 2 and isinstance(tg[0], ast.Name) and cell_attr(tg[1]):
            c, a = cell_attr(tg[1])
            r = "SAssignBoth %s %s %s %s" % (q(tg[0].id), q(c), q(a), E(s.value)); locs.add(tg[0].id); return r
        if len(tg) == 1 and isinstance(tg[0], ast.Subscript) and cell_attr(tg[0].value):
            i = tg[0].slice
            if isinstance(i, ast.UnaryOp) and isinstance(i.op, ast.USub) and isinstance(i.operand, ast.Constant) and i.operand.value == 1:
                c, a = cell_attr(tg[0].value)
                return "SSetLast %s %s %s" % (q(c), q(a), E(s.value))
        raise Bad("assignment %s" % ast.dump(s)[:160])
    if isinstance(s, ast.Expr) and isinstance(s.value, ast.Call) and isinstance(s.value.func, ast.Name) and s.value.func.id in ACCESSORS:
        return "SExpr %s" % E(s.value)
    if STATE["generic"] and isinstance(s, ast.Expr) and isinstance(s.value, ast.Call) and not (isinstance(s.value.func, ast.Attribute) and cell_attr(s.value.func.value)) \
            and not (isinstance(s.value.func, ast.Attribute) and isinstance(s.value.func.value, ast.Name) and s.value.func.value.id in locs and s.value.func.attr == "append"):
        return "SExpr %s" % E(s.value)
    if isinstance(s, ast.Expr) and isinstance(s.value, ast.Call) and isinstance(s.value.func, ast.Attribute) and not s.value.keywords:
        f = s.value.func
        if f.attr == "append" and isinstance(f.value, ast.Name) and f.value.id in locs and len(s.value.args) == 1:
            return "SAppend %s %s" % (q(f.value.id), E(s.value.args[0]))
        if f.attr == "pop" and cell_attr(f.value) and not s.value.args:
            c, a = cell_attr(f.value)
            return "SPopAttr %s %s" % (q(c), q(a))
        raise Bad("expression statement %s" % ast.dump(s)[:160])
    if STATE["generic"] and isinstance(s, ast.Try) and len(s.handlers) == 1 and not s.orelse and isinstance(s.handlers[0].type, ast.Name) \
            and s.handlers[0].type.id == "Exception" and s.handlers[0].name and s.handlers[0].body and isinstance(s.handlers[0].body[-1], ast.Raise) \
            and s.handlers[0].body[-1].exc is None:
        h = s.handlers[0]
        b = stmts(s.body, params, locs)
        locs.add(h.name)
        inner = "STryExc %s\n    %s\n    %s" % (q(h.name), b, stmts(h.body[:-1], params, locs))
        if not s.finalbody:
            return inner
        for x in s.finalbody:
            if not (isinstance(x, ast.Expr) and isinstance(x.value, ast.Call) and isinstance(x.value.func, ast.Name) and x.value.func.id in ACCESSORS and not x.value.args and not x.value.keywords):
                raise Bad("finally block is not a sequence of argument-less accessor calls")
        return "STryFinally\n    [%s]\n    %s" % (inner, stmts(s.finalbody, params, locs))
    if isinstance(s, ast.Try) and s.finalbody and not s.handlers and not s.orelse:
        for x in s.finalbody:
            # the finally block runs in an environment the embedding does not track after a return / raise: only argument-less accessor calls
            if not (isinstance(x, ast.Expr) and isinstance(x.value, ast.Call) and isinstance(x.value.func, ast.Name) and x.value.func.id in ACCESSORS and not x.value.args and not x.value.keywords):
                raise Bad("finally block is not a sequence of argument-less accessor calls")
        return "STryFinally\n    %s\n    %s" % (stmts(s.body, params, locs), stmts(s.finalbody, params, locs))
    if isinstance(s, ast.For) and not s.orelse and isinstance(s.target, ast.Tuple) and len(s.target.elts) == 2 and all(isinstance(x, ast.Name) for x in s.target.elts) \
            and isinstance(s.iter, ast.Call) and isinstance(s.iter.func, ast.Name) and s.iter.func.id == "enumerate" and len(s.iter.args) == 1 and not s.iter.keywords:
        i, x = s.target.elts[0].id, s.target.elts[1].id
        it = E(s.iter.args[0])
        locs.update([i, x])
        return "SForEnum %s %s %s\n    %s" % (q(i), q(x), it, stmts(s.body, params, locs))
    if isinstance(s, ast.Try):
        if s.orelse or s.finalbody or len(s.handlers) != 1:
            raise Bad("try shape")
        h = s.handlers[0]
        if isinstance(h.type, ast.Name) and h.type.id == "BaseException" and h.name is None and h.body and isinstance(h.body[-1], ast.Raise) \
                and h.body[-1].exc is None and h.body[-1].cause is None:
            return "STryAll\n    %s\n    %s" % (stmts(s.body, params, locs), stmts(h.body[:-1], params, locs))
        if not (isinstance(h.type, ast.Name) and h.type.id == "AttributeError" and h.name is None):
            raise Bad("try handler is not `except AttributeError:`")
        return "STryAttr\n    %s\n    %s" % (stmts(s.body, params, locs), stmts(h.body, params, locs))
    if isinstance(s, ast.Raise) and s.cause is None and isinstance(s.exc, ast.Call) and isinstance(s.exc.func, ast.Name) and s.exc.func.id in EXN:
        for a in s.exc.args:
            if not (isinstance(a, ast.Constant) and isinstance(a.value, str)):
                raise Bad("exception argument is not a string literal")
        return "SRaise %s" % EXN[s.exc.func.id]
    raise Bad("statement %s" % ast.dump(s)[:160])


def translate(repo):
    tree = ast.parse(open(os.path.join(repo, "jaxtyping", "_storage.py")).read())
    fns = {n.name: n for n in tree.body if isinstance(n, ast.FunctionDef)}
    # the cells must be module-level threading.local() objects bound exactly once (tr_storage.py checks the kinds; here: the names)
    out = ["(* GENERATED by translator/tr_pyl_storage.py from jaxtyping/_storage.py -- do not edit *)",
           "From JT Require Import model.SL.", "Open Scope string_scope."]
    names = []
    for name in ACCESSORS:
        if name not in fns:
            raise Bad("accessor %s not found" % name)
        f = fns[name]
        a = f.args
        if f.decorator_list or a.vararg or a.kwarg or a.kwonlyargs or a.posonlyargs or a.defaults:
            raise Bad("unexpected signature of %s" % name)
        params = [x.arg for x in a.args]
        body = stmts(f.body, set(params), set())
        out.append("Definition src_%s : sfun := mkfun [%s]\n  %s." % (name.lstrip("_"), "; ".join(q(p) for p in params), body))
        names.append(name)
    # every other function of the module that touches a cell would be an access path the theorems do not cover
    for n in tree.body:
        if isinstance(n, ast.FunctionDef) and n.name not in ACCESSORS:
            used = {x.id for x in ast.walk(n) if isinstance(x, ast.Name)} & set(CELLS)
            if used:
                raise Bad("function %s uses %s but is not a known accessor" % (n.name, sorted(used)))
    out.append("Definition storage_src : smodule :=\n  [%s]." % ";\n   ".join("(%s, src_%s)" % (q(n), n.lstrip("_")) for n in names))
    # ---- the context manager behind `with jaxtyped("context"):` (jaxtyping/_decorator.py)
    dtree = ast.parse(open(os.path.join(repo, "jaxtyping", "_decorator.py")).read())
    cls = [n for n in dtree.body if isinstance(n, ast.ClassDef) and n.name == "_JaxtypingContext"]
    if len(cls) != 1 or cls[0].bases or cls[0].keywords or cls[0].decorator_list:
        raise Bad("_JaxtypingContext not found exactly once as a plain class")
    meths = {}
    for m in cls[0].body:
        if isinstance(m, ast.Expr) and isinstance(m.value, ast.Constant) and isinstance(m.value.value, str):
            continue
        if not isinstance(m, ast.FunctionDef):
            raise Bad("_JaxtypingContext has a class-level statement that is not a method: %s" % type(m).__name__)
        meths[m.name] = m
    if sorted(meths) != ["__enter__", "__exit__"]:
        raise Bad("_JaxtypingContext methods are %s, expected exactly __enter__ and __exit__" % sorted(meths))
    for name, m in meths.items():
        a = m.args
        if m.decorator_list or a.vararg or a.kwarg or a.kwonlyargs or a.posonlyargs or a.defaults:
            raise Bad("unexpected signature of _JaxtypingContext.%s" % name)
        params = [x.arg for x in a.args]
        # `self` is a parameter like any other; the fragment has no attribute access on it, so a method that reads or writes state
        # on the context object is outside the fragment (the object is stateless, hence freely re-enterable and shareable)
        body = stmts(m.body, set(params), set())
        out.append("Definition src_context%s : sfun := mkfun [%s]\n  %s." % (name.rstrip("_"), "; ".join(q(p) for p in params), body))
    out.append('Definition context_src : smodule := (storage_src ++ [("__enter__", src_context__enter); ("__exit__", src_context__exit)])%list.')
    # jaxtyped("context") hands out a NEW context-manager object per call
    fresh = False
    for n in ast.walk(dtree):
        if isinstance(n, ast.FunctionDef) and n.name == "jaxtyped":
            for st in ast.walk(n):
                if isinstance(st, ast.If) and isinstance(st.test, ast.Compare) and len(st.test.ops) == 1 and isinstance(st.test.ops[0], ast.Eq) \
                        and isinstance(st.test.comparators[0], ast.Constant) and st.test.comparators[0].value == "context":
                    rets = [x for x in st.body if isinstance(x, ast.Return)]
                    guards = all(isinstance(x, ast.If) and len(x.body) == 1 and isinstance(x.body[0], ast.Raise) and not x.orelse for x in st.body[:-1])
                    if guards and len(rets) == 1 and st.body[-1] is rets[0] and isinstance(rets[0].value, ast.Call) and isinstance(rets[0].value.func, ast.Name) \
                            and rets[0].value.func.id == "_JaxtypingContext" and not rets[0].value.args and not rets[0].value.keywords:
                        fresh = True
    if not fresh:
        raise Bad('jaxtyped("context") is not `return _JaxtypingContext()`')
    out.append("Definition context_call_returns_new_object : bool := true.")
    # ---- the snapshot / roll-back wrappers around the shape check and around the PyTree walk: the statements from
    #      `... = get_shape_memo()` to the end of _MetaAbstractArray.__instancecheck_str__ and of _MetaPyTree.__instancecheck__
    def tail_of(path, clsname, fname, defname):
        t = ast.parse(open(os.path.join(repo, "jaxtyping", path)).read())
        ms = [m for c in t.body if isinstance(c, ast.ClassDef) and c.name == clsname for m in c.body if isinstance(m, ast.FunctionDef) and m.name == fname]
        if len(ms) != 1:
            raise Bad("%s.%s not found exactly once" % (clsname, fname))
        m = ms[0]
        params = [x.arg for x in m.args.args]
        if params != ["cls", "obj"]:
            raise Bad("unexpected signature of %s.%s" % (clsname, fname))
        idx = [i for i, st in enumerate(m.body) if isinstance(st, ast.Assign) and isinstance(st.value, ast.Call) and isinstance(st.value.func, ast.Name) and st.value.func.id == "get_shape_memo"]
        if len(idx) != 1:
            raise Bad("%s.%s: expected exactly one top-level `... = get_shape_memo()`" % (clsname, fname))
        for st in m.body[:idx[0]]:
            for x in ast.walk(st):
                if isinstance(x, ast.Name) and x.id in ACCESSORS and x.id != "get_treeflatten_memo":
                    raise Bad("%s.%s touches the context stack before taking its snapshot (%s)" % (clsname, fname, x.id))
        STATE["aliases"], STATE["tainted"] = set(), False
        body = stmts(m.body[idx[0]:], set(params), set())
        STATE["aliases"], STATE["tainted"] = set(), False
        return "Definition %s : sfun := mkfun [\"cls\"; \"obj\"]\n  %s." % (defname, body)
    out.append(tail_of("_array_types.py", "_MetaAbstractArray", "__instancecheck_str__", "src_array_rollback_tail"))
    out.append(tail_of("_pytree_type.py", "_MetaPyTree", "__instancecheck__", "src_pytree_rollback_tail"))
    # ---- _MetaPyTree._check: the flatten bracket and the leaf loop (the structure comparison between them is JAX's and modelled by hand)
    pt = ast.parse(open(os.path.join(repo, "jaxtyping", "_pytree_type.py")).read())
    cm = [m for c in pt.body if isinstance(c, ast.ClassDef) and c.name == "_MetaPyTree" for m in c.body if isinstance(m, ast.FunctionDef) and m.name == "_check"]
    if len(cm) != 1:
        raise Bad("_MetaPyTree._check not found exactly once")
    body = cm[0].body
    isacc = lambda st, nm: isinstance(st, ast.Expr) and isinstance(st.value, ast.Call) and isinstance(st.value.func, ast.Name) and st.value.func.id == nm
    fb = [i for i, st in enumerate(body) if isacc(st, "set_treeflatten_memo")]
    if len(fb) != 1 or fb[0] + 1 >= len(body) or not isinstance(body[fb[0] + 1], ast.Try):
        raise Bad("_check: expected exactly one top-level `set_treeflatten_memo()` directly followed by a try statement")
    if not (isinstance(body[-1], ast.Return) and isinstance(body[-1].value, ast.Constant) and body[-1].value.value is True and isinstance(body[-2], ast.Try)):
        raise Bad("_check does not end with `try: <leaf loop> finally: ...` and `return True`")
    # nothing else at the top level of _check (outside these two fragments) may touch the label or the flag
    for k, st in enumerate(body):
        if k in (fb[0], fb[0] + 1, len(body) - 2):
            continue
        for x in ast.walk(st):
            if isinstance(x, ast.Name) and x.id in ("set_treeflatten_memo", "clear_treeflatten_memo", "set_treepath_memo", "clear_treepath_memo"):
                raise Bad("_check touches the flatten flag or the leaf position outside its two brackets (%s)" % x.id)
    STATE["aliases"], STATE["tainted"] = set(), False
    out.append("Definition src_pytree_flatten_bracket : sfun := mkfun [\"obj\"]\n  %s." % stmts(body[fb[0]:fb[0] + 2], {"obj"}, set()))
    STATE["aliases"], STATE["tainted"] = set(), False
    out.append("Definition src_pytree_leaf_loop : sfun := mkfun [\"structure\"; \"leaves\"]\n  %s." % stmts(body[-2:], {"structure", "leaves"}, set()))
    STATE["aliases"], STATE["tainted"] = set(), False
    out.append('Definition walk_src : smodule := (storage_src ++ [("flatten_bracket", src_pytree_flatten_bracket); ("leaf_loop", src_pytree_leaf_loop)])%list.')
    out.append('Definition rollback_src : smodule := (storage_src ++ [("array_tail", src_array_rollback_tail); ("pytree_tail", src_pytree_rollback_tail)])%list.')
    # ---- the new-style decorated function: jaxtyped(typechecker=...)(fn) returns this wrapper
    wf = [n for n in ast.walk(dtree) if isinstance(n, ast.FunctionDef) and n.name == "wrapped_fn"
          and any(isinstance(x, ast.Name) and x.id == "wrapped_fn_impl" for x in ast.walk(n))]
    if len(wf) != 1:
        raise Bad("new-style wrapped_fn (the one calling wrapped_fn_impl) not found exactly once")
    w = wf[0]
    if not (w.args.vararg and w.args.vararg.arg == "args" and w.args.kwarg and w.args.kwarg.arg == "kwargs" and not w.args.args and not w.args.kwonlyargs and not w.args.posonlyargs):
        raise Bad("unexpected signature of wrapped_fn")
    inner = [x for st in w.body for x in ast.walk(st)]
    assigned = {t.id for st in inner if isinstance(st, ast.Assign) for t in st.targets if isinstance(t, ast.Name)}
    free = sorted({x.id for x in inner if isinstance(x, ast.Name) and isinstance(x.ctx, ast.Load)} - assigned - set(ACCESSORS) - {"getattr", "args", "kwargs"})
    wparams = ["args", "kwargs"] + free
    STATE["aliases"], STATE["tainted"], STATE["generic"] = set(), False, True
    try:
        wbody = stmts(w.body, set(wparams) | {"getattr"}, set())
    finally:
        STATE["generic"] = False
    out.append("Definition src_wrapped_fn : sfun := mkfun [%s]\n  %s." % ("; ".join(q(x) for x in wparams), wbody))
    wo = [n for n in ast.walk(dtree) if isinstance(n, ast.FunctionDef) and n.name == "wrapped_fn"
          and not any(isinstance(x, ast.Name) and x.id == "wrapped_fn_impl" for x in ast.walk(n))]
    if len(wo) != 1:
        raise Bad("old-style wrapped_fn (the one around jaxtyped(typechecker(fn))) not found exactly once")
    wo = wo[0]
    if not (wo.args.vararg and wo.args.vararg.arg == "args" and wo.args.kwarg and wo.args.kwarg.arg == "kwargs" and not wo.args.args and not wo.args.kwonlyargs and not wo.args.posonlyargs):
        raise Bad("unexpected signature of the old-style wrapped_fn")
    inner = [x for st in wo.body for x in ast.walk(st)]
    assigned = {t.id for st in inner if isinstance(st, ast.Assign) for t in st.targets if isinstance(t, ast.Name)} | {h.name for h in inner if isinstance(h, ast.ExceptHandler) and h.name}
    free = sorted({x.id for x in inner if isinstance(x, ast.Name) and isinstance(x.ctx, ast.Load)} - assigned - set(ACCESSORS) - {"args", "kwargs"})
    oparams = ["args", "kwargs"] + free
    STATE["aliases"], STATE["tainted"], STATE["generic"] = set(), False, True
    try:
        obody = stmts(wo.body, set(oparams), set())
    finally:
        STATE["generic"] = False
    out.append("Definition src_old_wrapped_fn : sfun := mkfun [%s]\n  %s." % ("; ".join(q(x) for x in oparams), obody))
    out.append('Definition wrapped_src : smodule := (storage_src ++ [("wrapped_fn", src_wrapped_fn); ("old_wrapped_fn", src_old_wrapped_fn)])%list.')
    out.append('Definition all_src : smodule := (storage_src ++ [("__enter__", src_context__enter); ("__exit__", src_context__exit); ("flatten_bracket", src_pytree_flatten_bracket); ("leaf_loop", src_pytree_leaf_loop); ("array_tail", src_array_rollback_tail); ("pytree_tail", src_pytree_rollback_tail); ("wrapped_fn", src_wrapped_fn); ("old_wrapped_fn", src_old_wrapped_fn)])%list.')
    return {"StorageSrc.v": "\n".join(out) + "\n"}


if __name__ == "__main__":
    import sys
    print(translate(sys.argv[1])["StorageSrc.v"])

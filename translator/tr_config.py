"""jaxtyping/_config.py -> coq/gen/ConfigTable.v  (fail-closed).
Accepted shape of _maybestr2bool(value, error):
    if isinstance(value, bool): return value
    elif isinstance(value, str):
        if value.lower() in (<strs>): return False
        elif value.lower() in (<strs>): return True
        else: raise ValueError(error)
    else: raise ValueError(error)
and of update(): an if/elif chain on item.lower() == "<name>" each assigning self.<name> = _maybestr2bool(value, msg),
ending in `else: raise ValueError`."""
import ast, os


class Bad(Exception):
    pass


def q(s):
    return '"' + s.replace('"', '""') + '"'


def is_isinstance(test, ty):
    return (isinstance(test, ast.Call) and isinstance(test.func, ast.Name) and test.func.id == "isinstance" and len(test.args) == 2
            and isinstance(test.args[0], ast.Name) and test.args[0].id == "value" and isinstance(test.args[1], ast.Name) and test.args[1].id == ty)


def lower_in(test):
    """value.lower() in ("..", "..") -> list of strings"""
    if not (isinstance(test, ast.Compare) and len(test.ops) == 1 and isinstance(test.ops[0], ast.In)):
        raise Bad("expected `value.lower() in (...)`")
    l = test.left
    if not (isinstance(l, ast.Call) and isinstance(l.func, ast.Attribute) and l.func.attr == "lower" and isinstance(l.func.value, ast.Name) and l.func.value.id == "value" and not l.args):
        raise Bad("the tested expression is not value.lower()")
    c = test.comparators[0]
    if not isinstance(c, (ast.Tuple, ast.List, ast.Set)) or not all(isinstance(e, ast.Constant) and isinstance(e.value, str) for e in c.elts):
        raise Bad("spellings are not a literal tuple of strings")
    return [e.value for e in c.elts]


def is_raise_valueerror(stmts):
    return len(stmts) == 1 and isinstance(stmts[0], ast.Raise) and isinstance(stmts[0].exc, ast.Call) and getattr(stmts[0].exc.func, "id", None) == "ValueError"


def ret_const(stmts, val):
    return len(stmts) == 1 and isinstance(stmts[0], ast.Return) and isinstance(stmts[0].value, ast.Constant) and stmts[0].value.value is val


def translate(repo):
    tree = ast.parse(open(os.path.join(repo, "jaxtyping", "_config.py")).read())
    fn = [n for n in tree.body if isinstance(n, ast.FunctionDef) and n.name == "_maybestr2bool"]
    if len(fn) != 1:
        raise Bad("_maybestr2bool not found")
    body = [s for s in fn[0].body if not (isinstance(s, ast.Expr) and isinstance(s.value, ast.Constant))]
    if len(body) != 1 or not isinstance(body[0], ast.If):
        raise Bad("_maybestr2bool is not a single if/elif/else")
    top = body[0]
    if not is_isinstance(top.test, "bool") or not (len(top.body) == 1 and isinstance(top.body[0], ast.Return) and isinstance(top.body[0].value, ast.Name) and top.body[0].value.id == "value"):
        raise Bad("first branch is not `if isinstance(value, bool): return value`")
    if len(top.orelse) != 1 or not isinstance(top.orelse[0], ast.If) or not is_isinstance(top.orelse[0].test, "str"):
        raise Bad("second branch is not `elif isinstance(value, str)`")
    sb = top.orelse[0]
    if not is_raise_valueerror(sb.orelse):
        raise Bad("non-bool non-str values do not raise ValueError")
    if len(sb.body) != 1 or not isinstance(sb.body[0], ast.If):
        raise Bad("str branch is not an if/elif/else")
    a = sb.body[0]
    falses = lower_in(a.test)
    if not ret_const(a.body, False):
        raise Bad("first spelling list does not return False")
    if len(a.orelse) != 1 or not isinstance(a.orelse[0], ast.If):
        raise Bad("missing elif for the true spellings")
    b = a.orelse[0]
    trues = lower_in(b.test)
    if not ret_const(b.body, True):
        raise Bad("second spelling list does not return True")
    if not is_raise_valueerror(b.orelse):
        raise Bad("unrecognised strings do not raise ValueError")
    # update(): item names
    cls = [n for n in tree.body if isinstance(n, ast.ClassDef) and n.name == "_JaxtypingConfig"]
    if len(cls) != 1:
        raise Bad("_JaxtypingConfig not found")
    upd = [n for n in cls[0].body if isinstance(n, ast.FunctionDef) and n.name == "update"]
    if len(upd) != 1:
        raise Bad("update not found")
    items = []
    node = [s for s in upd[0].body if isinstance(s, ast.If)]
    if len(node) != 1:
        raise Bad("update is not one if chain")
    node = node[0]
    while True:
        t = node.test
        ok = (isinstance(t, ast.Compare) and len(t.ops) == 1 and isinstance(t.ops[0], ast.Eq) and isinstance(t.left, ast.Call)
              and isinstance(t.left.func, ast.Attribute) and t.left.func.attr == "lower" and isinstance(t.comparators[0], ast.Constant))
        if not ok:
            raise Bad("update test is not item.lower() == \"...\"")
        name = t.comparators[0].value
        assigns = [s for s in node.body if isinstance(s, ast.Assign) and isinstance(s.targets[0], ast.Attribute)]
        if len(assigns) != 1 or assigns[0].targets[0].attr != name or not (isinstance(assigns[0].value, ast.Call) and getattr(assigns[0].value.func, "id", None) == "_maybestr2bool"
                                                                        and isinstance(assigns[0].value.args[0], ast.Name) and assigns[0].value.args[0].id == "value"):
            raise Bad("update branch for %s does not store _maybestr2bool(value, ...) into self.%s" % (name, name))
        items.append(name)
        if len(node.orelse) == 1 and isinstance(node.orelse[0], ast.If):
            node = node.orelse[0]
        else:
            if not is_raise_valueerror(node.orelse):
                raise Bad("unknown config items do not raise ValueError")
            break
    txt = ["(* GENERATED by translator/tr_config.py from jaxtyping/_config.py -- do not edit *)",
           "From Coq Require Import String List.", "Import ListNotations.", "Open Scope string_scope.",
           "Definition false_spellings : list string := [%s]." % "; ".join(q(s) for s in falses),
           "Definition true_spellings : list string := [%s]." % "; ".join(q(s) for s in trues),
           "Definition config_items : list string := [%s]." % "; ".join(q(s) for s in items)]
    # the early-return test of the new-style wrapper
    dec = ast.parse(open(os.path.join(repo, "jaxtyping", "_decorator.py")).read())
    found = []
    for n in ast.walk(dec):
        if isinstance(n, ast.FunctionDef) and n.name == "wrapped_fn":
            first = [s for s in n.body if not (isinstance(s, ast.Assign) and getattr(s.targets[0], "id", "") == "__tracebackhide__")]
            if first and isinstance(first[0], ast.If):
                src = ast.unparse(first[0].test)
                if "jaxtyping_disable" in src:
                    found.append((src, ast.unparse(first[0].body[0]) if first[0].body else ""))
    if len(found) != 1:
        raise Bad("new-style wrapped_fn does not start with exactly one test of config.jaxtyping_disable (found %d)" % len(found))
    src, ret = found[0]
    want = "config.jaxtyping_disable or getattr(fn, '__no_type_check__', False) or getattr(wrapped_fn_holder[0](), '__no_type_check__', False)"
    txt.append("Definition early_return_test_is_standard : bool := %s." % ("true" if (src == want and ret == "return fn(*args, **kwargs)") else "false"))
    return {"ConfigTable.v": "\n".join(txt) + "\n"}

"""jaxtyping/{_pytree_type,_array_types,_decorator,_storage}.py -> coq/gen/Brackets.v

Exception-safety STRUCTURE of the code, read from the AST (not from its text): the model's transitions restore the
context / reset the transient flags unconditionally on every exit; that is only faithful when the source brackets the
corresponding mutation with try/finally (or except BaseException + re-raise).  Each fact below is a boolean computed by
a semantic pattern over the AST; `false` makes the theorem that cites it fail.  Constructs the patterns do not understand
give `false` (never `true`); a file that does not parse aborts the translation (fail-closed).

 flatten_flag_protected   every call of set_treeflatten_memo() is immediately followed by `try: ... finally:` whose
                          finalbody calls clear_treeflatten_memo(); or it sits in a @contextmanager generator of that shape
                          (and then that context manager is only ever used in `with`)
 treepath_protected       every call of set_treepath_memo(..) lies in the body of a try whose finalbody calls
                          clear_treepath_memo() (same context-manager clause)
 array_check_rolls_back   _MetaAbstractArray.__instancecheck_str__: the call of cls._check_shape is inside a try with an
                          `except BaseException` (or bare) handler that calls set_shape_memo(<the four backups>) and re-raises;
                          the mismatch branch calls set_shape_memo with the same backups; each backup is `<memo>.copy()` of a
                          component unpacked from get_shape_memo() before the try
 pytree_check_rolls_back  the same for _MetaPyTree.__instancecheck__ around cls._check
 push_pop_bracketed       every push_shape_memo(..) statement is either immediately followed by (or is the first statement
                          of the body of) `try: ... finally: pop_shape_memo()` whose try-body neither yields nor awaits, or it
                          is the body of an __enter__ whose class has an __exit__ that calls pop_shape_memo() unconditionally;
                          every pop_shape_memo() call is one of those
 pop_unconditional        _storage.pop_shape_memo is exactly `<cell>.memo_stack.pop()`
 disabled_returns_before_push   in every function that tests config.jaxtyping_disable and pushes a context, the test is a
                          top-level `if` whose body returns fn(*args, **kwargs) and precedes the push (and any bind)
 messages_read_live_memo  every shape_str(..) call in _decorator.py is shape_str(get_shape_memo()): error messages and notes
                          format the context as it is at that moment, not a tuple captured earlier
"""
import ast, os


class Bad(Exception):
    pass


def q(s):
    return '"' + s.replace('"', '""') + '"'


def parents(tree):
    par = {}
    for n in ast.walk(tree):
        for c in ast.iter_child_nodes(n):
            par[c] = n
    return par


def call_name(c):
    f = c.func
    return f.id if isinstance(f, ast.Name) else f.attr if isinstance(f, ast.Attribute) else None


def calls(node, name):
    return [c for c in ast.walk(node) if isinstance(c, ast.Call) and call_name(c) == name]


def is_call_stmt(s, name):
    return isinstance(s, ast.Expr) and isinstance(s.value, ast.Call) and call_name(s.value) == name


def stmt_of(node, par):
    """the statement containing node, with the body list it sits in and its index"""
    n = node
    while not isinstance(n, ast.stmt):
        n = par[n]
    p = par[n]
    for field in ("body", "orelse", "finalbody", "handlers"):
        lst = getattr(p, field, None)
        if isinstance(lst, list) and n in lst:
            return n, p, field, lst, lst.index(n)
    raise Bad("statement not found in its parent")


def enclosing_function(node, par):
    n = node
    while n in par:
        n = par[n]
        if isinstance(n, (ast.FunctionDef, ast.AsyncFunctionDef, ast.Lambda)):
            return n
    return None


def own_nodes(fn):
    """nodes of fn's body, not descending into nested function definitions"""
    out, stack = [], list(fn.body) if hasattr(fn, "body") and isinstance(fn.body, list) else []
    while stack:
        n = stack.pop()
        out.append(n)
        for c in ast.iter_child_nodes(n):
            if not isinstance(c, (ast.FunctionDef, ast.AsyncFunctionDef, ast.Lambda)):
                stack.append(c)
    return out


def finally_calls(t, name):
    return isinstance(t, ast.Try) and any(is_call_stmt(s, name) for s in t.finalbody)


def is_contextmanager(fn):
    return isinstance(fn, ast.FunctionDef) and any((isinstance(d, ast.Name) and d.id == "contextmanager") or (isinstance(d, ast.Attribute) and d.attr == "contextmanager") for d in fn.decorator_list)


def protected(trees, setter, clearer, notes):
    """every call of setter is protected by a finally that calls clearer"""
    ok, found = True, 0
    cms = set()
    for fname, (tree, par) in trees.items():
        for c in calls(tree, setter):
            fn = enclosing_function(c, par)
            if fn is not None and fn.name == setter:
                continue
            found += 1
            s, p, field, lst, i = stmt_of(c, par)
            good = False
            # (A) inside the body of a try whose finalbody clears
            n = s
            while n in par and not isinstance(n, (ast.FunctionDef, ast.AsyncFunctionDef)):
                pn = par[n]
                if isinstance(pn, ast.Try) and n in pn.body and finally_calls(pn, clearer):
                    good = True
                n = pn
            # (B) a plain statement directly followed by such a try
            if not good and is_call_stmt(s, setter) and i + 1 < len(lst) and finally_calls(lst[i + 1], clearer):
                nxt = lst[i + 1]
                if fn is not None and is_contextmanager(fn):
                    # (C) context manager: the try body must be the yield
                    if any(isinstance(x, (ast.Yield, ast.YieldFrom)) for b in nxt.body for x in ast.walk(b)):
                        good = True; cms.add(fn.name)
                else:
                    good = True
            if not good:
                ok = False
                notes.append("%s: %s(..) at line %d is not protected by try/finally %s()" % (fname, setter, c.lineno, clearer))
    # a protecting context manager must only be used as `with cm():`
    for fname, (tree, par) in trees.items():
        for cm in cms:
            for c in calls(tree, cm):
                pn = par.get(c)
                if not isinstance(pn, ast.withitem):
                    ok = False; notes.append("%s: context manager %s used outside `with` at line %d" % (fname, cm, c.lineno))
    if found == 0:
        ok = False; notes.append("no call of %s found: the transient state is set some other way" % setter)
    return ok


def find_method(tree, cls, meth):
    for n in tree.body:
        if isinstance(n, ast.ClassDef) and n.name == cls:
            for m in n.body:
                if isinstance(m, ast.FunctionDef) and m.name == meth:
                    return m
    return None


def rolls_back(fn, inner, notes, where):
    if fn is None:
        notes.append("%s: method not found" % where); return False
    body = fn.body
    tr = [s for s in body if isinstance(s, ast.Try) and any(calls(b, inner) for b in s.body)]
    if len(tr) != 1:
        notes.append("%s: the call of %s is not inside exactly one top-level try" % (where, inner)); return False
    t = tr[0]
    idx = body.index(t)
    # backups: X_bak = X.copy() for the four components unpacked from get_shape_memo()
    comps, baks = None, {}
    for s in body[:idx]:
        if isinstance(s, ast.Assign) and isinstance(s.value, ast.Call) and call_name(s.value) == "get_shape_memo" and isinstance(s.targets[0], ast.Tuple):
            comps = [e.id for e in s.targets[0].elts if isinstance(e, ast.Name)]
        if isinstance(s, ast.Assign) and isinstance(s.value, ast.Call) and call_name(s.value) == "copy" and isinstance(s.value.func, ast.Attribute) and isinstance(s.value.func.value, ast.Name) and isinstance(s.targets[0], ast.Name):
            baks[s.value.func.value.id] = s.targets[0].id
    if not comps or len(comps) != 4 or any(c not in baks for c in comps):
        notes.append("%s: the four components of get_shape_memo() are not each copied before the try" % where); return False
    want = [baks[c] for c in comps]

    def restores(stmts):
        for s in stmts:
            if is_call_stmt(s, "set_shape_memo") and [a.id if isinstance(a, ast.Name) else None for a in s.value.args] == want:
                return True
        return False
    h = [x for x in t.handlers if x.type is None or (isinstance(x.type, ast.Name) and x.type.id == "BaseException")]
    if not h or not restores(h[0].body) or not (isinstance(h[0].body[-1], ast.Raise) and h[0].body[-1].exc is None):
        notes.append("%s: no `except BaseException:` handler that restores the four backups and re-raises" % where); return False
    if t.handlers.index(h[0]) != 0 and any(not restores(x.body) for x in t.handlers[:t.handlers.index(h[0])]):
        notes.append("%s: an earlier handler does not restore" % where); return False
    if t.finalbody or t.orelse:
        notes.append("%s: unexpected else/finally on the try" % where); return False
    # after the try: an `if` on the result, exactly one branch restores, both branches return
    rest = body[idx + 1:]
    if len(rest) != 1 or not isinstance(rest[0], ast.If):
        notes.append("%s: the statements after the try are not a single if/else on the result" % where); return False
    br = rest[0]
    a, b = restores(br.body), restores(br.orelse)
    ret = lambda stmts: stmts and isinstance(stmts[-1], ast.Return)
    if a == b or not ret(br.body) or not ret(br.orelse):
        notes.append("%s: not exactly one branch of the final if restores the backups (both must return)" % where); return False
    return True


def push_pop(trees, notes):
    ok = True
    good_pops = set()
    npush = 0
    for fname, (tree, par) in trees.items():
        for c in calls(tree, "push_shape_memo"):
            fn = enclosing_function(c, par)
            if fn is not None and fn.name == "push_shape_memo":
                continue
            npush += 1
            s, p, field, lst, i = stmt_of(c, par)
            if fn is not None and fn.name == "__enter__":
                cls = par.get(fn)
                ex = [m for m in getattr(cls, "body", []) if isinstance(m, ast.FunctionDef) and m.name == "__exit__"]
                if len(fn.body) == 1 and ex and sum(1 for st in ex[0].body if is_call_stmt(st, "pop_shape_memo")) == 1 and len(ex[0].body) == 1:
                    good_pops.add(id(ex[0].body[0].value)); continue
                ok = False; notes.append("%s: __enter__/__exit__ at line %d do not push/pop exactly once unconditionally" % (fname, c.lineno)); continue
            t = None
            if i + 1 < len(lst) and isinstance(lst[i + 1], ast.Try) and not isinstance(p, ast.Try):
                t = lst[i + 1]
            elif isinstance(p, ast.Try) and field == "body" and i == 0:
                t = p
            elif i + 1 < len(lst) and isinstance(lst[i + 1], ast.Try):
                t = lst[i + 1]
            pops = [st for st in (t.finalbody if t is not None else []) if is_call_stmt(st, "pop_shape_memo")]
            if t is None or len(pops) != 1:
                ok = False; notes.append("%s: push_shape_memo at line %d is not directly followed by try/finally pop_shape_memo()" % (fname, c.lineno)); continue
            susp = [x for b in t.body for x in ast.walk(b) if isinstance(x, (ast.Yield, ast.YieldFrom, ast.Await))]
            if susp:
                ok = False; notes.append("%s: the try after push_shape_memo at line %d suspends (yield/await) while the context is open" % (fname, c.lineno)); continue
            good_pops.add(id(pops[0].value))
        for c in calls(tree, "pop_shape_memo"):
            fn = enclosing_function(c, par)
            if fn is not None and fn.name == "pop_shape_memo":
                continue
            if id(c) not in good_pops:
                ok = False; notes.append("%s: pop_shape_memo at line %d is not the finally of a push" % (fname, c.lineno))
    if npush == 0:
        ok = False; notes.append("no push_shape_memo call found")
    return ok


def pop_unconditional(tree, notes):
    for n in tree.body:
        if isinstance(n, ast.FunctionDef) and n.name == "pop_shape_memo":
            body = [s for s in n.body if not (isinstance(s, ast.Expr) and isinstance(s.value, ast.Constant))]
            if len(body) == 1 and isinstance(body[0], ast.Expr) and ast.unparse(body[0].value).endswith(".memo_stack.pop()"):
                return True
            notes.append("_storage.pop_shape_memo is not a single unconditional memo_stack.pop()"); return False
    notes.append("_storage.pop_shape_memo not found"); return False


def disabled_first(tree, par, notes):
    ok, seen = True, 0
    for fn in [n for n in ast.walk(tree) if isinstance(n, ast.FunctionDef)]:
        own = own_nodes(fn)
        pushes = [n for n in own if isinstance(n, ast.Call) and call_name(n) == "push_shape_memo"]
        tests = [n for n in own if isinstance(n, ast.Attribute) and n.attr == "jaxtyping_disable"]
        if not pushes or not tests:
            continue
        seen += 1
        ifs = [s for s in fn.body if isinstance(s, ast.If) and any(isinstance(x, ast.Attribute) and x.attr == "jaxtyping_disable" for x in ast.walk(s.test))]
        if len(ifs) != 1:
            ok = False; notes.append("%s: the disable test is not a single top-level if" % fn.name); continue
        i = fn.body.index(ifs[0])
        b = ifs[0].body
        if not (len(b) == 1 and isinstance(b[0], ast.Return) and isinstance(b[0].value, ast.Call) and ast.unparse(b[0].value) == "fn(*args, **kwargs)") or ifs[0].orelse:
            ok = False; notes.append("%s: the disabled branch is not `return fn(*args, **kwargs)`" % fn.name); continue
        before = fn.body[:i]
        if any(isinstance(x, ast.Call) for s in before for x in ast.walk(s)):
            ok = False; notes.append("%s: something is called before the disable test" % fn.name); continue
    if seen == 0:
        ok = False; notes.append("no function both tests jaxtyping_disable and pushes a context")
    return ok


def messages_live(tree, notes):
    """every shape_str(..) in _decorator.py formats the LIVE context: its argument is literally get_shape_memo()"""
    cs = calls(tree, "shape_str")
    if not cs:
        notes.append("_decorator.py: no shape_str call found"); return False
    ok = True
    for c in cs:
        if not (len(c.args) == 1 and isinstance(c.args[0], ast.Call) and call_name(c.args[0]) == "get_shape_memo" and not c.args[0].args):
            ok = False; notes.append("_decorator.py: shape_str at line %d is not given get_shape_memo()" % c.lineno)
    return ok


def translate(repo):
    trees = {}
    for f in ("_pytree_type.py", "_array_types.py", "_decorator.py", "_storage.py"):
        tree = ast.parse(open(os.path.join(repo, "jaxtyping", f)).read())
        trees[f] = (tree, parents(tree))
    notes = []
    facts = [
        ("flatten_flag_protected", protected(trees, "set_treeflatten_memo", "clear_treeflatten_memo", notes)),
        ("treepath_protected", protected(trees, "set_treepath_memo", "clear_treepath_memo", notes)),
        ("array_check_rolls_back", rolls_back(find_method(trees["_array_types.py"][0], "_MetaAbstractArray", "__instancecheck_str__"), "_check_shape", notes, "_MetaAbstractArray.__instancecheck_str__")),
        ("pytree_check_rolls_back", rolls_back(find_method(trees["_pytree_type.py"][0], "_MetaPyTree", "__instancecheck__"), "_check", notes, "_MetaPyTree.__instancecheck__")),
        ("push_pop_bracketed", push_pop(trees, notes)),
        ("pop_unconditional", pop_unconditional(trees["_storage.py"][0], notes)),
        ("disabled_returns_before_push", disabled_first(trees["_decorator.py"][0], trees["_decorator.py"][1], notes)),
        ("messages_read_live_memo", messages_live(trees["_decorator.py"][0], notes)),
    ]
    out = ["(* GENERATED by translator/tr_brackets.py from jaxtyping/{_pytree_type,_array_types,_decorator,_storage}.py -- do not edit *)",
           "From Coq Require Import String List Bool.", "Import ListNotations.", "Open Scope string_scope."]
    for k, v in facts:
        out.append("Definition %s : bool := %s." % (k, "true" if v else "false"))
    out.append("Definition bracket_notes : list string :=\n  [%s]." % ";\n   ".join(q(n) for n in notes))
    return {"Brackets.v": "\n".join(out) + "\n"}

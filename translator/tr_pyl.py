"""jaxtyping/_array_types.py:_check_dims  ->  coq/gen/CheckDimsSrc.v   (a term of the deep embedding model/PyL.v)

The function's AST is translated construct by construct into the small language PyL; nothing about what the function
"should" do is put in here -- proofs/PyLFacts.v proves that INTERPRETING the generated term computes model/Check.v's
check_dims, for all inputs.  Fail-closed: any construct outside the fragment aborts the translation.

Fragment: assert / pass / return <string> / if-elif-else / `for a, b in zip(x, y)` / `x = e` / `d[k] = e` /
`try: x = d[k]  except KeyError: ...  else: ...` / the two-stage eval idiom of a symbolic axis wrapped in
`try ... except NameError as e: raise AnnotationError(...) from e`; expressions: names, module-level sentinels, attribute
access, `is`, `==`, `!=`, `and`, `not`, `type(x) is C`, `+`, `len(x)`, `get_treepath_memo()`, int / bool / None / string
literals and f-strings (a non-empty message is abstracted to the marker "msg")."""
import ast, os


class Bad(Exception):
    pass


def q(s):
    return '"' + s.replace('"', '""') + '"'


GLOBALS = {"_anonymous_dim", "_anonymous_variadic_dim"}
CLASSES = {"_FixedDim", "_SymbolicDim", "_NamedDim", "_NamedVariadicDim"}


def expr(e, locs):
    if isinstance(e, ast.Name):
        if e.id in GLOBALS:
            return "(PGlobal %s)" % q(e.id)
        if e.id in locs:
            return "(PVar %s)" % q(e.id)
        raise Bad("name %s is neither a parameter/local nor a known module-level sentinel (line %d)" % (e.id, e.lineno))
    if isinstance(e, ast.Constant):
        if isinstance(e.value, bool):
            return "(PBool %s)" % ("true" if e.value else "false")
        if isinstance(e.value, int):
            return "(PInt %d)" % e.value
        if e.value is None:
            return "PNone"
        if isinstance(e.value, str):
            if len(e.value) <= 2 and e.value.isascii() and e.value.isprintable() and '"' not in e.value:
                return "(PStr %s)" % q(e.value)          # separators such as "." are data, not messages
            return '(PStr "msg")'
        raise Bad("constant %r" % (e.value,))
    if isinstance(e, ast.JoinedStr):
        # a message: every interpolated expression must itself be in the fragment (so that it cannot raise / have effects
        # the model does not know), the text is abstracted
        for v in e.values:
            if isinstance(v, ast.FormattedValue):
                if v.format_spec is not None or v.conversion != -1:
                    raise Bad("format spec in f-string (line %d)" % e.lineno)
                expr(v.value, locs)
        return '(PStr "msg")'
    if isinstance(e, ast.Attribute):
        return "(PAttr %s %s)" % (expr(e.value, locs), q(e.attr))
    if isinstance(e, ast.BoolOp) and isinstance(e.op, ast.And) and len(e.values) == 2:
        return "(PAnd %s %s)" % (expr(e.values[0], locs), expr(e.values[1], locs))
    if isinstance(e, ast.BoolOp) and isinstance(e.op, ast.Or) and len(e.values) == 2:
        return "(POr %s %s)" % (expr(e.values[0], locs), expr(e.values[1], locs))
    if isinstance(e, ast.Call) and isinstance(e.func, ast.Attribute) and e.func.attr == "startswith" and len(e.args) == 1 and not e.keywords:
        return "(PStartsWith %s %s)" % (expr(e.func.value, locs), expr(e.args[0], locs))
    if isinstance(e, ast.UnaryOp) and isinstance(e.op, ast.Not):
        return "(PNot %s)" % expr(e.operand, locs)
    if isinstance(e, ast.UnaryOp) and isinstance(e.op, ast.USub):
        return "(PNeg %s)" % expr(e.operand, locs)
    if isinstance(e, ast.BinOp) and isinstance(e.op, ast.Sub):
        return "(PSub %s %s)" % (expr(e.left, locs), expr(e.right, locs))
    if isinstance(e, ast.Tuple) and len(e.elts) == 2 and isinstance(e.ctx, ast.Load):
        return "(PTuple2 %s %s)" % (expr(e.elts[0], locs), expr(e.elts[1], locs))
    if isinstance(e, ast.Subscript) and isinstance(e.ctx, ast.Load):
        sl = e.slice
        if isinstance(sl, ast.Slice):
            if sl.step is not None:
                raise Bad("slice with a step (line %d)" % e.lineno)
            lo = "None" if sl.lower is None else "(Some %s)" % expr(sl.lower, locs)
            hi = "None" if sl.upper is None else "(Some %s)" % expr(sl.upper, locs)
            return "(PSlice %s %s %s)" % (expr(e.value, locs), lo, hi)
        return "(PIndex %s %s)" % (expr(e.value, locs), expr(sl, locs))
    if isinstance(e, ast.BinOp) and isinstance(e.op, ast.Add):
        return "(PAdd %s %s)" % (expr(e.left, locs), expr(e.right, locs))
    if isinstance(e, ast.Compare) and len(e.ops) == 1:
        op, l, r = e.ops[0], e.left, e.comparators[0]
        if isinstance(op, ast.Is):
            if isinstance(l, ast.Call) and isinstance(l.func, ast.Name) and l.func.id == "type" and len(l.args) == 1 and isinstance(r, ast.Name) and r.id in CLASSES:
                return "(PTypeIs %s %s)" % (expr(l.args[0], locs), q(r.id))
            return "(PIs %s %s)" % (expr(l, locs), expr(r, locs))
        if isinstance(op, ast.IsNot):
            return "(PNot (PIs %s %s))" % (expr(l, locs), expr(r, locs))
        if isinstance(op, ast.Lt):
            return "(PLt %s %s)" % (expr(l, locs), expr(r, locs))
        if isinstance(op, ast.Eq):
            return "(PEq %s %s)" % (expr(l, locs), expr(r, locs))
        if isinstance(op, ast.NotEq):
            return "(PNe %s %s)" % (expr(l, locs), expr(r, locs))
        raise Bad("comparison operator %s (line %d)" % (type(op).__name__, e.lineno))
    if isinstance(e, ast.Call) and isinstance(e.func, ast.Name) and not e.keywords:
        if e.func.id == "len" and len(e.args) == 1:
            return "(PLen %s)" % expr(e.args[0], locs)
        if e.func.id == "get_treepath_memo" and not e.args:
            return '(PCall0 "get_treepath_memo")'
    raise Bad("expression outside the fragment: %s (line %d)" % (ast.dump(e)[:80], getattr(e, "lineno", 0)))


def is_copy_of(c, names):
    return isinstance(c, ast.Call) and isinstance(c.func, ast.Attribute) and c.func.attr == "copy" and isinstance(c.func.value, ast.Name) and c.func.value.id in names and not c.args


def eval_idiom(t, locs):
    """try: a = eval(f"f'{E}'", ARGS.copy()); b = eval(a, SINGLE.copy())  except NameError as e: raise AnnotationError(..) from e"""
    if len(t.body) != 2 or t.orelse or t.finalbody or len(t.handlers) != 1:
        return None
    s1, s2 = t.body
    if not all(isinstance(s, ast.Assign) and len(s.targets) == 1 and isinstance(s.targets[0], ast.Name) for s in (s1, s2)):
        return None
    c1, c2 = s1.value, s2.value
    for c in (c1, c2):
        if not (isinstance(c, ast.Call) and isinstance(c.func, ast.Name) and c.func.id == "eval" and len(c.args) == 2 and not c.keywords):
            return None
    js = c1.args[0]
    if not (isinstance(js, ast.JoinedStr) and len(js.values) == 3 and isinstance(js.values[0], ast.Constant) and js.values[0].value == "f'"
            and isinstance(js.values[1], ast.FormattedValue) and js.values[1].format_spec is None and js.values[1].conversion == -1
            and isinstance(js.values[2], ast.Constant) and js.values[2].value == "'"):
        return None
    if not (is_copy_of(c1.args[1], locs) and is_copy_of(c2.args[1], locs)):
        return None
    if not (isinstance(c2.args[0], ast.Name) and c2.args[0].id == s1.targets[0].id):
        return None
    h = t.handlers[0]
    if not (isinstance(h.type, ast.Name) and h.type.id == "NameError" and len(h.body) == 1 and isinstance(h.body[0], ast.Raise)
            and isinstance(h.body[0].exc, ast.Call) and isinstance(h.body[0].exc.func, ast.Name) and h.body[0].exc.func.id == "AnnotationError"):
        return None
    locs.add(s1.targets[0].id); locs.add(s2.targets[0].id)
    return "(SEvalSym %s %s %s %s)" % (q(s2.targets[0].id), expr(js.values[1].value, locs), q(c1.args[1].func.value.id), q(c2.args[1].func.value.id))


def stmts(body, locs):
    return "[" + "; ".join(stmt(s, locs) for s in body) + "]"


FUNCS = {"_check_dims"}      # other translated functions that may be called


def call_of(e, locs):
    if isinstance(e, ast.Call) and isinstance(e.func, ast.Name) and e.func.id in FUNCS and not e.keywords:
        return e.func.id, "[" + "; ".join(expr(a, locs) for a in e.args) + "]"
    return None


def stmt(s, locs):
    if isinstance(s, ast.Pass):
        return "SPass"
    if isinstance(s, ast.Return) and s.value is not None and call_of(s.value, locs):
        f, args = call_of(s.value, locs)
        locs.add("_ret")
        return '(SCallAssign "_ret" %s %s); (SReturn (PVar "_ret"))' % (q(f), args)
    if isinstance(s, ast.Assign) and len(s.targets) == 1 and isinstance(s.targets[0], ast.Name) and call_of(s.value, locs):
        f, args = call_of(s.value, locs)
        locs.add(s.targets[0].id)
        return "(SCallAssign %s %s %s)" % (q(s.targets[0].id), q(f), args)
    if isinstance(s, ast.Assert) and s.msg is None:
        return "(SAssert %s)" % expr(s.test, locs)
    if isinstance(s, ast.Assign) and len(s.targets) == 1 and isinstance(s.targets[0], ast.Name) and isinstance(s.value, ast.Constant) and s.value.value is None:
        locs.add(s.targets[0].id)
        return "(SAssign %s PNone)" % q(s.targets[0].id)
    if isinstance(s, ast.Return) and s.value is not None:
        return "(SReturn %s)" % expr(s.value, locs)
    if isinstance(s, ast.If):
        return "(SIf %s %s %s)" % (expr(s.test, locs), stmts(s.body, locs), stmts(s.orelse, locs))
    if isinstance(s, ast.Assign) and len(s.targets) == 1:
        t = s.targets[0]
        if isinstance(t, ast.Name):
            v = expr(s.value, locs)
            locs.add(t.id)
            return "(SAssign %s %s)" % (q(t.id), v)
        if isinstance(t, ast.Subscript) and isinstance(t.value, ast.Name) and t.value.id in locs and not isinstance(t.slice, ast.Slice):
            return "(SSetItem %s %s %s)" % (q(t.value.id), expr(t.slice, locs), expr(s.value, locs))
    if isinstance(s, ast.For) and not s.orelse:
        it, tg = s.iter, s.target
        if (isinstance(it, ast.Call) and isinstance(it.func, ast.Name) and it.func.id == "zip" and len(it.args) == 2 and not it.keywords
                and isinstance(tg, ast.Tuple) and len(tg.elts) == 2 and all(isinstance(x, ast.Name) for x in tg.elts)):
            a, b = expr(it.args[0], locs), expr(it.args[1], locs)
            locs.add(tg.elts[0].id); locs.add(tg.elts[1].id)
            return "(SForZip %s %s %s %s %s)" % (q(tg.elts[0].id), q(tg.elts[1].id), a, b, stmts(s.body, locs))
    if isinstance(s, ast.For) and not s.orelse and isinstance(s.target, ast.Name) and not (isinstance(s.iter, ast.Call) and isinstance(s.iter.func, ast.Name)):
        a = expr(s.iter, locs)
        locs.add(s.target.id)
        return "(SForIn %s %s %s)" % (q(s.target.id), a, stmts(s.body, locs))
    if isinstance(s, ast.Try):
        ev = eval_idiom(s, locs)
        if ev is not None:
            return ev
        # try: x = np.broadcast_shapes(a, b) / except ValueError: onfail
        if (len(s.body) == 1 and isinstance(s.body[0], ast.Assign) and len(s.body[0].targets) == 1 and isinstance(s.body[0].targets[0], ast.Name)
                and isinstance(s.body[0].value, ast.Call) and isinstance(s.body[0].value.func, ast.Attribute) and s.body[0].value.func.attr == "broadcast_shapes"
                and isinstance(s.body[0].value.func.value, ast.Name) and s.body[0].value.func.value.id == "np" and len(s.body[0].value.args) == 2 and not s.body[0].value.keywords
                and len(s.handlers) == 1 and isinstance(s.handlers[0].type, ast.Name) and s.handlers[0].type.id == "ValueError" and s.handlers[0].name is None
                and not s.orelse and not s.finalbody):
            a, b = expr(s.body[0].value.args[0], locs), expr(s.body[0].value.args[1], locs)
            onfail = stmts(s.handlers[0].body, set(locs))
            locs.add(s.body[0].targets[0].id)
            return "(STryBroadcast %s %s %s %s)" % (q(s.body[0].targets[0].id), a, b, onfail)
        # try: x1, x2 = d[k] / except KeyError: onmiss / else: orelse
        if (len(s.body) == 1 and isinstance(s.body[0], ast.Assign) and len(s.body[0].targets) == 1 and isinstance(s.body[0].targets[0], ast.Tuple)
                and len(s.body[0].targets[0].elts) == 2 and all(isinstance(x, ast.Name) for x in s.body[0].targets[0].elts)
                and isinstance(s.body[0].value, ast.Subscript) and isinstance(s.body[0].value.value, ast.Name) and s.body[0].value.value.id in locs
                and not isinstance(s.body[0].value.slice, ast.Slice)
                and len(s.handlers) == 1 and isinstance(s.handlers[0].type, ast.Name) and s.handlers[0].type.id == "KeyError" and s.handlers[0].name is None
                and not s.finalbody):
            x1, x2 = (x.id for x in s.body[0].targets[0].elts)
            k = expr(s.body[0].value.slice, locs)
            onmiss = stmts(s.handlers[0].body, set(locs))
            locs.add(x1); locs.add(x2)
            return "(STryKey2 %s %s %s %s %s %s)" % (q(x1), q(x2), q(s.body[0].value.value.id), k, onmiss, stmts(s.orelse, locs))
        # try: x = d[k] / except KeyError: onmiss / else: orelse
        if (len(s.body) == 1 and isinstance(s.body[0], ast.Assign) and len(s.body[0].targets) == 1 and isinstance(s.body[0].targets[0], ast.Name)
                and isinstance(s.body[0].value, ast.Subscript) and isinstance(s.body[0].value.value, ast.Name) and s.body[0].value.value.id in locs
                and len(s.handlers) == 1 and isinstance(s.handlers[0].type, ast.Name) and s.handlers[0].type.id == "KeyError" and s.handlers[0].name is None
                and not s.finalbody):
            x = s.body[0].targets[0].id
            k = expr(s.body[0].value.slice, locs)
            onmiss = stmts(s.handlers[0].body, set(locs))
            locs.add(x)
            return "(STryKey %s %s %s %s %s)" % (q(x), q(s.body[0].value.value.id), k, onmiss, stmts(s.orelse, locs))
    raise Bad("statement outside the fragment: %s (line %d)" % (ast.dump(s)[:100], getattr(s, "lineno", 0)))


def translate(repo):
    tree = ast.parse(open(os.path.join(repo, "jaxtyping", "_array_types.py")).read())
    fns = [n for n in tree.body if isinstance(n, ast.FunctionDef) and n.name == "_check_dims"]
    if len(fns) != 1:
        raise Bad("_check_dims not found exactly once at module level")
    fn = fns[0]
    if fn.decorator_list or fn.args.vararg or fn.args.kwarg or fn.args.kwonlyargs or fn.args.posonlyargs or fn.args.defaults:
        raise Bad("unexpected signature of _check_dims")
    params = [a.arg for a in fn.args.args]
    body = [s for s in fn.body if not (isinstance(s, ast.Expr) and isinstance(s.value, ast.Constant) and isinstance(s.value.value, str))]
    src = stmts(body, set(params))
    # the method _MetaAbstractArray._check_shape
    meths = [m for c in tree.body if isinstance(c, ast.ClassDef) and c.name == "_MetaAbstractArray" for m in c.body if isinstance(m, ast.FunctionDef) and m.name == "_check_shape"]
    if len(meths) != 1:
        raise Bad("_MetaAbstractArray._check_shape not found exactly once")
    m = meths[0]
    if m.decorator_list or m.args.vararg or m.args.kwarg or m.args.kwonlyargs or m.args.posonlyargs or m.args.defaults:
        raise Bad("unexpected signature of _check_shape")
    sparams = [a.arg for a in m.args.args]
    sbody = [s for s in m.body if not (isinstance(s, ast.Expr) and isinstance(s.value, ast.Constant) and isinstance(s.value.value, str))]
    ssrc = stmts(sbody, set(sparams))
    out = ["(* GENERATED by translator/tr_pyl.py from jaxtyping/_array_types.py: _check_dims and _MetaAbstractArray._check_shape -- do not edit *)",
           "From JT Require Import model.PyL.", "Open Scope string_scope.",
           "Definition check_dims_params : list string := [%s]." % "; ".join(q(p) for p in params),
           "Definition check_dims_src : list pstmt :=\n  %s." % src,
           "Definition check_shape_params : list string := [%s]." % "; ".join(q(p) for p in sparams),
           "Definition check_shape_src : list pstmt :=\n  %s." % ssrc]
    return {"CheckDimsSrc.v": "\n".join(out) + "\n"}

"""jaxtyping/_import_hook.py -> coq/gen/HookConsts.v (fail-closed).
Extracts: the decorator template of Typechecker.get_ast (source text -> parsed AST, hash as a placeholder),
the selection `.body[0].decorator_list[0]`, how visit_FunctionDef / visit_ClassDef place the decorator,
the optimisation-tag format, the hash of typechecker=None, which loader method holds the cache patch,
and the test in should_instrument."""
import ast, os, sys

sys.path.insert(0, os.path.join(os.path.dirname(os.path.abspath(__file__)), "..", "lib"))


class Bad(Exception):
    pass


def q(s):
    return '"' + s.replace('"', '""') + '"'


def coq_ast(n):
    """Python ast node -> Coq `ast` term (same canonical form as lib/pyast.py)"""
    import pyast
    return pyast.to_coq(n)


def find(tree, cls, name):
    for n in ast.walk(tree):
        if isinstance(n, cls) and n.name == name:
            return n
    raise Bad("%s %s not found" % (cls.__name__, name))


def translate(repo):
    src = open(os.path.join(repo, "jaxtyping", "_import_hook.py")).read()
    tree = ast.parse(src)
    tc = find(tree, ast.ClassDef, "Typechecker")
    get_ast = [n for n in tc.body if isinstance(n, ast.FunctionDef) and n.name == "get_ast"]
    if len(get_ast) != 1:
        raise Bad("Typechecker.get_ast not found")
    rets = [n for n in ast.walk(get_ast[0]) if isinstance(n, ast.Return)]
    if len(rets) != 1:
        raise Bad("get_ast has not exactly one return")
    r = rets[0].value
    # ast.parse(<text>).body[0].decorator_list[0]
    ok = (isinstance(r, ast.Subscript) and isinstance(r.value, ast.Attribute) and r.value.attr == "decorator_list" and isinstance(r.slice, ast.Constant) and r.slice.value == 0
          and isinstance(r.value.value, ast.Subscript) and isinstance(r.value.value.value, ast.Attribute) and r.value.value.value.attr == "body"
          and isinstance(r.value.value.slice, ast.Constant) and r.value.value.slice.value == 0)
    if not ok:
        raise Bad("get_ast does not return ast.parse(...).body[0].decorator_list[0]")
    call = r.value.value.value.value
    if not (isinstance(call, ast.Call) and ast.unparse(call.func) == "ast.parse" and len(call.args) == 1 and not call.keywords):
        raise Bad("get_ast does not call ast.parse(<one argument>)")
    arg = call.args[0]
    parts = []

    def text(e):
        if isinstance(e, ast.Constant) and isinstance(e.value, str):
            return e.value
        if isinstance(e, ast.JoinedStr):
            out = ""
            for v in e.values:
                if isinstance(v, ast.Constant):
                    out += v.value
                elif isinstance(v, ast.FormattedValue) and ast.unparse(v.value) == "self.hash" and v.conversion == -1 and v.format_spec is None:
                    out += "@HASH@"
                else:
                    raise Bad("unexpected replacement field in the decorator template: " + ast.unparse(v))
            return out
        if isinstance(e, ast.BinOp) and isinstance(e.op, ast.Add):
            return text(e.left) + text(e.right)
        raise Bad("decorator template is not a (concatenation of) string literal(s)")
    template = text(arg)
    dec = ast.parse(template).body[0].decorator_list[0]
    # placement of the decorator
    tr = find(tree, ast.ClassDef, "JaxtypingTransformer")

    def placement(fname):
        f = [n for n in tr.body if isinstance(n, ast.FunctionDef) and n.name == fname]
        if len(f) != 1:
            raise Bad(fname + " not found")
        calls = [ast.unparse(n) for n in ast.walk(f[0]) if isinstance(n, ast.Call) and isinstance(n.func, ast.Attribute) and isinstance(n.func.value, ast.Attribute) and n.func.value.attr == "decorator_list"]
        if len(calls) != 1:
            raise Bad("%s: expected exactly one call on node.decorator_list, found %s" % (fname, calls))
        copies = [ast.unparse(n) for n in ast.walk(f[0]) if isinstance(n, ast.Call) and ast.unparse(n.func) == "ast.copy_location"]
        if copies != ["ast.copy_location(decorator, node)"]:
            raise Bad("%s: location is not copied from the node onto the decorator: %s" % (fname, copies))
        return calls[0]
    pf, pc = placement("visit_FunctionDef"), placement("visit_ClassDef")
    visited = sorted(n.name for n in tr.body if isinstance(n, ast.FunctionDef) and n.name.startswith("visit_"))
    has_generic = any(isinstance(n, ast.FunctionDef) and n.name in ("generic_visit", "visit") for n in tr.body)
    base = [ast.unparse(b) for b in tr.bases]
    # optimisation tag
    ocs = find(tree, ast.FunctionDef, "_optimized_cache_from_source")
    tags = [n for n in ast.walk(ocs) if isinstance(n, ast.keyword) and n.arg == "optimization"]
    if len(tags) != 1 or not isinstance(tags[0].value, ast.JoinedStr):
        raise Bad("optimization= tag is not an f-string")
    tag = "".join(v.value if isinstance(v, ast.Constant) else "{" + ast.unparse(v.value) + "}" for v in tags[0].value.values)
    # hash for None
    init = [n for n in tc.body if isinstance(n, ast.FunctionDef) and n.name == "__init__"][0]
    none_hash = None
    for n in ast.walk(init):
        if isinstance(n, ast.If) and ast.unparse(n.test) == "typechecker is None":
            for s in n.body:
                if isinstance(s, ast.Assign) and ast.unparse(s.targets[0]) == "self.hash" and isinstance(s.value, ast.Constant):
                    none_hash = s.value.value
    if none_hash is None:
        raise Bad("hash of typechecker=None not found")
    md5 = any(ast.unparse(n) == "hashlib.md5(typechecker.encode('utf-8')).hexdigest()" for n in ast.walk(init))
    # which loader method holds the patch of cache_from_source
    loader = find(tree, ast.ClassDef, "_JaxtypingLoader")
    patched = []
    for m in loader.body:
        if isinstance(m, ast.FunctionDef):
            for n in ast.walk(m):
                if isinstance(n, ast.Call) and ast.unparse(n.func) == "patch" and n.args and isinstance(n.args[0], ast.Constant) and "cache_from_source" in str(n.args[0].value):
                    inner = [ast.unparse(c.func) for w in ast.walk(m) if isinstance(w, ast.With) for b in w.body for c in ast.walk(b) if isinstance(c, ast.Call)]
                    patched.append((m.name, inner))
    if len(patched) != 1:
        raise Bad("expected exactly one method of _JaxtypingLoader patching cache_from_source, found %s" % [p[0] for p in patched])
    # should_instrument
    fi = find(tree, ast.ClassDef, "_JaxtypingFinder")
    si = [n for n in fi.body if isinstance(n, ast.FunctionDef) and n.name == "should_instrument"][0]
    tests = [ast.unparse(n.test) for n in ast.walk(si) if isinstance(n, ast.If)]
    out = ["(* GENERATED by translator/tr_hook.py from jaxtyping/_import_hook.py -- do not edit *)",
           "From JT Require Import model.HookAst.", "Open Scope string_scope.",
           "Definition dec_template_text : string := %s." % q(template),
           "Definition dec_template : ast :=\n  %s." % coq_ast(dec),
           "Definition function_placement : string := %s." % q(pf),
           "Definition class_placement : string := %s." % q(pc),
           "Definition transformer_base : list string := [%s]." % "; ".join(q(b) for b in base),
           "Definition transformer_visits : list string := [%s]." % "; ".join(q(v) for v in visited),
           "Definition transformer_overrides_generic_visit : bool := %s." % ("true" if has_generic else "false"),
           "Definition optimization_tag : string := %s." % q(tag),
           "Definition none_hash : string := %s." % q(none_hash),
           "Definition hash_is_md5_of_string : bool := %s." % ("true" if md5 else "false"),
           "Definition cache_patch_method : string := %s." % q(patched[0][0]),
           "Definition cache_patch_body_calls : list string := [%s]." % "; ".join(q(c) for c in patched[0][1]),
           "Definition should_instrument_tests : list string := [%s]." % "; ".join(q(t) for t in tests)]
    return {"HookConsts.v": "\n".join(out) + "\n"}

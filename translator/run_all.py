"""Regenerate every generated Coq file from the repository's current working tree.
usage: run_all.py <repo> <outdir>.  Fail-closed: any construct outside the small
expression languages the translators accept aborts with exit status 1."""
import importlib, os, sys

sys.path.insert(0, os.path.dirname(os.path.abspath(__file__)))
TRANSLATORS = ["tr_dtypes", "tr_config", "tr_storage", "tr_hook", "tr_brackets", "tr_pyl", "tr_pyl_hook", "tr_pyl_storage"]


def write_if_changed(path, txt):
    old = open(path).read() if os.path.exists(path) else None
    if old != txt:
        with open(path, "w") as f:
            f.write(txt)


def main():
    repo, out = sys.argv[1], sys.argv[2]
    os.makedirs(out, exist_ok=True)
    failed = []
    for name in TRANSLATORS:
        try:
            mod = importlib.import_module(name)
        except ModuleNotFoundError:
            continue
        try:
            for fname, txt in mod.translate(repo).items():
                write_if_changed(os.path.join(out, fname), txt)
        except Exception as e:  # fail closed, but keep going so every problem is listed
            failed.append("%s: %s: %s" % (name, type(e).__name__, e))
    if failed:
        print("TRANSLATOR-FAILED\n" + "\n".join(failed))
        sys.exit(1)


if __name__ == "__main__":
    main()

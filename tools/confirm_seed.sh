#!/bin/bash
# usage: [SEEDROOT=/tmp/seed2] tools/confirm_seed.sh Cnn k [dest-index]  -- confirm seeded variant k of property Cnn in its scratch worktree, then keep it as seeded/Cnn-<dest-index>
id="$1"; k="$2"; dk="${3:-$2}"; root="${SEEDROOT:-/tmp/seed}"; wt=$root/$id; out=$root/$id-out
cd "$wt" || exit 2
git checkout -q -- . ; git clean -fdq
git checkout -q --detach $(git -C /repo rev-parse HEAD) 2>/dev/null
PYTHONPATH=$wt timeout 600 /venv/bin/python $out/demo$k.py >/dev/null 2>&1; clean_rc=$?
git apply "$out/patch$k.diff" || { echo "$id-$k: patch does not apply on current HEAD"; exit 1; }
PYTHONPATH=$wt timeout 600 /venv/bin/python $out/demo$k.py >/dev/null 2>&1; patched_rc=$?
/venv/bin/python /verif/tools/suite.py "$wt" > $out/suite$k.txt 2>&1; suite_rc=$?
git checkout -q -- . ; git clean -fdq
echo "$id-$k: demo clean rc=$clean_rc patched rc=$patched_rc suite rc=$suite_rc ($(tail -1 $out/suite$k.txt))"
if [ $clean_rc -eq 0 ] && [ $patched_rc -ne 0 ] && [ $suite_rc -eq 0 ]; then
  d=/verif/seeded/$id-$dk; mkdir -p $d
  cp $out/patch$k.diff $d/patch.diff; cp $out/demo$k.py $d/demo.py
  /venv/bin/python - "$id" "$k" "$out" "$d" <<'PY'
import json, sys
id, k, out, d = sys.argv[1:]
try:
    metas = json.load(open(out + "/meta.json"))
    m = [x for x in (metas if isinstance(metas, list) else [metas]) if int(x.get("variant", 1)) == int(k)][0]
except Exception as e:
    m = {"note": "agent meta.json unreadable: %s" % e}
m["property"] = id
m["confirmed_by_main_session"] = "tools/confirm_seed.sh: demo exits 0 on the unchanged tree and non-zero with the patch; tools/suite.py on the patched worktree: all 267 stable_pass tests pass"
json.dump(m, open(d + "/meta.json", "w"), indent=1)
PY
  echo "  kept as $d"
else
  echo "  NOT kept"
fi

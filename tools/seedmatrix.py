"""Apply every seeded change to /repo in turn, run the check of the property it breaks, undo it; record who catches what.
usage: seedmatrix.py [ids...]   writes seeded/MATRIX.json and prints a table"""
import json, os, subprocess, sys, glob
V = os.path.dirname(os.path.dirname(os.path.abspath(__file__)))
ids = sys.argv[1:] or sorted(os.path.basename(d) for d in glob.glob(V + "/seeded/C*-*"))
if subprocess.run(["git", "-C", "/repo", "status", "--porcelain"], capture_output=True, text=True).stdout.strip():
    sys.exit("/repo not clean")
rows = {}
import tempfile, shutil
evkeep = tempfile.mkdtemp()
shutil.copytree(V + "/evidence", evkeep + "/e")   # evidence of the unchanged tree is restored afterwards
for sid in ids:
    prop = sid.split("-")[0]
    patch = "%s/seeded/%s/patch.diff" % (V, sid)
    a = subprocess.run(["git", "-C", "/repo", "apply", patch], capture_output=True, text=True)
    if a.returncode != 0:
        rows[sid] = {"applies": False, "err": a.stderr.strip()[:200]}
        print(sid, "DOES NOT APPLY"); continue
    try:
        p = subprocess.run(["./check", prop], cwd=V, capture_output=True, text=True, timeout=3000)
        lines = [l for l in p.stdout.splitlines() if l.startswith("VIOLATION")]
        concrete = [l for l in lines if not l.endswith("no-failing-input-found")]
        first = next((l.strip() for l in p.stdout.splitlines() if l.strip().startswith("[")), "")
        rows[sid] = {"applies": True, "exit": p.returncode, "violations": len(lines), "with_failing_input": len(concrete), "first": first[:300]}
        print(sid, "exit", p.returncode, "violations", len(lines), "concrete", len(concrete))
    finally:
        subprocess.run(["git", "-C", "/repo", "checkout", "--", "."])
        subprocess.run(["git", "-C", "/repo", "clean", "-fdq", "jaxtyping"])
shutil.copytree(evkeep + "/e", V + "/evidence", dirs_exist_ok=True); shutil.rmtree(evkeep)
old = {}
if sys.argv[1:] and os.path.exists(V + "/seeded/MATRIX.json"):
    old = json.load(open(V + "/seeded/MATRIX.json"))
old.update(rows)
json.dump(old, open(V + "/seeded/MATRIX.json", "w"), indent=1, sort_keys=True)

"""Run the repository's pinned suite on a tree and compare with BASELINE.json's stable_pass.
usage: suite.py [tree]   (default /repo).  exit 0 iff every stable_pass test still passes."""
import json, os, subprocess, sys, tempfile, xml.etree.ElementTree as ET
tree = sys.argv[1] if len(sys.argv) > 1 else "/repo"
base = json.load(open("/root/.vp/BASELINE.json"))
fd, xml = tempfile.mkstemp(suffix=".xml"); os.close(fd)
env = dict(os.environ, PYTHONPATH=tree)
for k in ("JAXTYPING_VERIF", "JAXTYPING_DISABLE"):
    env.pop(k, None)
p = subprocess.run(["/venv/bin/python", "-m", "pytest", "-ra", "-q", "-p", "no:cacheprovider", "--timeout=900",
                    "--continue-on-collection-errors", "--junitxml=" + xml], cwd=tree, env=env, capture_output=True, text=True)
passed = set()
for tc in ET.parse(xml).getroot().iter("testcase"):
    if not any(c.tag in ("failure", "error", "skipped") for c in tc):
        passed.add(tc.get("classname") + "::" + tc.get("name"))
os.unlink(xml)
missing = [t for t in base["stable_pass"] if t not in passed]
print("stable_pass %d, passed now %d, missing %d" % (len(base["stable_pass"]), len(passed), len(missing)))
for t in missing[:20]:
    print("  NOT PASSING:", t)
sys.exit(1 if missing else 0)

#!/bin/bash
# usage: tools/seedtest.sh <patch.diff> <Cnn> [more Cnn...]  -- apply a seeded change to /repo, run checks, undo.
patch="$(realpath "$1")"; shift
cd /repo || exit 2
if [ -n "$(git status --porcelain)" ]; then echo "/repo not clean"; exit 2; fi
git apply "$patch" || { echo "patch does not apply"; exit 2; }
ev=$(mktemp -d); cp -a /verif/evidence/. "$ev"/   # evidence of the unchanged tree is kept, not the seeded run's
trap 'git -C /repo checkout -- . ; git -C /repo clean -fdq jaxtyping; cp -a "$ev"/. /verif/evidence/; rm -rf "$ev"' EXIT
for id in "$@"; do
  (cd /verif && ./check "$id" 2>&1 | grep -E "VIOLATION|KNOWN-FINDING|^C[0-9]+ |Traceback|Error" | head -8)
done

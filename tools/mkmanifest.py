"""Regenerate /verif/MANIFEST.json from the table below + which harnesses exist."""
import json, os
V = os.path.dirname(os.path.dirname(os.path.abspath(__file__)))

TB = ("Trusted: Coq 8.16.1 kernel (vm_compute, no native_compute, no axioms: every Print Assumptions is closed); "
      "the hand-written Gallina model of the named source lines; the Python correspondence harness that runs model (inside Coq) "
      "and implementation on the same cases; translators for generated data. Modelled not verified: CPython, NumPy/JAX/TF, typeguard, beartype. ")

P = {
 "C01": dict(text="Theorems (unbounded rank/size/history) about the executable model of _check_dims/_check_shape/__instancecheck_str__: slices partition the shape, the walk decides the declarative axis semantics, broadcasting is the lub. The model is tied to the code by a differential correspondence on generated (history, dim string, value) triples incl. exact memo contents.",
             tech="Coq proof over executable Gallina model + differential correspondence (vm_compute) against the implementation", ref="5/C01"),
 "C02": dict(text="Theorems: greedy bind-or-compare walk accepts iff a consistent assignment exists; verdict invariant under permutation of uses. Tie: generated decorated functions run under all parameter permutations, positional/keyword, typeguard and beartype, both spellings, dataclass. Typecheckers are third-party: that clause is validated, not proved (partial).",
             tech="Coq proof (gamma invariant, permutation invariance) + differential/metamorphic correspondence on decorated calls", ref="5/C02"),
 "C03": dict(text="Tables regenerated from source by a fail-closed translator; theorem: for all strings, table membership equals the documented hierarchy. Tie: complete enumeration of real dtypes x 34 categories x backends with an oracle independent of jaxtyping.",
             tech="Coq proof by computation over regenerated tables + exhaustive enumeration on real libraries", ref="5/C03"),
 "C04": dict(text="Theorems: a rejected or (Exception-)raising check leaves the context memo equal to the memo before; an accepted check is idempotent. Tie: cases engineered for partial progress; model-independent oracle compares deep copies of the live memo.",
             tech="Coq proof over the check model with explicit snapshot/restore + oracle on the implementation", ref="5/C04"),
 "C05": dict(text="Theorem by structural induction over programs of nested calls/context blocks/exits: the caller's stack is restored. Tie: random programs rendered to Python and executed; print_bindings transcripts compared.",
             tech="Coq proof by induction over programs + generated-program correspondence", ref="5/C05"),
 "C06": dict(text="Theorem: with all three storage cells thread-local (kinds regenerated from _storage.py), every interleaving projects to the solo runs. Tie: controlled-schedule harness (sys.settrace) on the real code. threading.local itself is CPython's (partial).",
             tech="Coq proof of non-interference over all interleavings + generated storage kinds + controlled-schedule replay", ref="5/C06"),
 "C07": dict(text="Theorems about gensym freshness, signature round trip and the wrapper event trace; tie: generated signatures x callable kinds, observing call count and argument identity. Object identity/functools.wraps are CPython's (partial).",
             tech="Coq proof (gensym, signature pieces, event trace) + differential testing against the undecorated callable", ref="5/C07"),
 "C08": dict(text="Theorems over all rose trees: leaves are the topmost subtrees matching L, accept iff all leaves match threading the memo, PyTree[PyTree[L]] = PyTree[L]. Tie: random trees x leaf types x histories against real JAX flatten.",
             tech="Coq proof by nested induction over trees + differential correspondence", ref="5/C08"),
 "C09": dict(text="Theorems over all trees: bind-then-equal, composition fold = nested compose, prefix and suffix checks are exact (greedy cut sound and complete). Tie: triples of random trees, all four forms, structure strings.",
             tech="Coq proof over tree algebra + differential correspondence with jax.tree_util", ref="5/C09"),
 "C10": dict(text="Theorem: strip(xform t) = t for every AST and the additions are exactly import + innermost/outermost decorators. Tie: translation validation of the real transformer on stdlib/site-packages files and generated modules.",
             tech="Coq proof over a generic AST model + per-file translation validation", ref="5/C10"),
 "C11": dict(text="Theorems: should_instrument = component-prefix; instrumented iff a live hook matched at first import. Tie: subprocess histories over a generated package forest with spy typecheckers.",
             tech="Coq proof over string/meta_path model + history correspondence in subprocesses", ref="5/C11"),
 "C12": dict(text="Theorems: flags reset after any op with any single fault; probe verdict is a function of (value, annotation, bindings). Tie: exhaustive fault catalogue + random histories then probes.",
             tech="Coq proof over fault model + exhaustive fault enumeration on the implementation", ref="5/C12"),
 "C13": dict(text="Theorems: error raised iff reject, blamed parameter is the first failing one, reported bindings equal the live memo. Tie: ill-typed generated calls, message parsed and compared with live memo captured by a spy.",
             tech="Coq proof over wrapper error path + message oracle on the implementation", ref="5/C13"),
 "C14": dict(text="Theorems for all strings: whitespace insignificant, modifier order free (any length), name= ignored, '...' = '*_', repeated/illegal forms rejected and only those. Parser termination by structural recursion (kernel-checked). Tie: exhaustive tokens (<=4 modifiers x 9 bases x doc= placement) and sampled sequences compared with the real parser; model-independent order/whitespace oracles.",
             tech="Coq proof over executable parser model + exhaustive token enumeration against the implementation", ref="5/C14"),
 "C15": dict(text="Theorems: nesting law via parse concatenation and dtype intersection, scalar ladder over generated tables. Tie: both sides of each law built with the real library and compared on probes.",
             tech="Coq proof + metamorphic comparison on the implementation", ref="5/C15"),
 "C16": dict(text="Theorems: tree-path labels are injective and disjoint from plain names, hence per-position independence; misuse raises. Tie: trees with per-leaf sizes.",
             tech="Coq proof over label model + differential correspondence", ref="5/C16"),
 "C17": dict(text="Theorem: the check model observes only isinstance/shape/dtype, so equal (type, shape, dtype) give equal outcomes. Tie: logging duck arrays and jit/vmap/grad/eval_shape vs eager. JAX tracing is JAX's (partial).",
             tech="Coq non-interference proof over the check model + access-log and tracing correspondence", ref="5/C17"),
 "C18": dict(text="Theorem: cache invariant (tag determines instrumentation) over all histories for get_code-scoped patching; refutation witness for exec_module-scoped patching. Tie: multi-run histories in subprocesses over one cache directory.",
             tech="Coq invariant proof over cache model + history replay on CPython", ref="5/C18"),
 "C19": dict(text="Theorems: switch parser accepts exactly the generated spellings; disabled wrapper trace is [Body]. Tie: exhaustive switch table + generated callables under toggle schedules vs the undecorated callable.",
             tech="Coq proof over generated config table + exhaustive switch enumeration", ref="5/C19"),
 "C20": dict(text="Theorems: flat annotations round-trip through the reducer; nested/cloudpickle cases refuted or proved after repair. Tie: verdict vectors of original-before/after and reloaded, same process and subprocess.",
             tech="Coq proof over reducer model + metamorphic verdict-vector comparison", ref="5/C20"),
}


def main():
    checks, na = [], []
    for pid in sorted(P):
        h = os.path.join(V, "harness", pid.lower() + ".py")
        if os.path.exists(h):
            p = P[pid]
            checks.append(dict(property_id=pid, quick_cmd="./check %s --tier quick" % pid,
                               thorough_cmd="./check %s --tier thorough" % pid,
                               evidence_file="/verif/evidence/%s.json" % pid,
                               replay_cmd_template="./check %s --replay {path}" % pid, engine="coq+correspondence",
                               level_claimed=dict(category="proof", text=p["text"], design_ref="DESIGN.md section " + p["ref"]),
                               level_note=TB + p.get("note", ""), technique=p["tech"]))
        else:
            na.append(dict(property_id=pid, reason="check not built yet in this session (planned, see DESIGN.md section 5/%s); not claimed until its harness exists" % pid))
    m = dict(version=1, setup_cmd="./setup.sh",
             hooks=dict(guard="JAXTYPING_VERIF", enable="no guarded source hooks: checks observe through public API and from-outside spies; JAXTYPING_VERIF=1 is exported to the implementation workers but nothing in /repo reads it",
                        baseline_off_cmd="cd /repo && /venv/bin/python -m pytest -ra -q -p no:cacheprovider --timeout=900 --continue-on-collection-errors",
                        source_commits=[], add_only=True),
             engines=[dict(name="coq+correspondence", path="/verif/coq + /verif/harness", serves_properties=[c["property_id"] for c in checks],
                           kind_free_text="Coq 8.16.1 development (model/, proofs/, props/, gen/ regenerated from /repo) + Python differential harness evaluating the model inside Coq by vm_compute")],
             checks=checks, not_applicable=na,
             notes="Entry point ./check Cnn; design in DESIGN.md; genuine defects in known_findings.json; seeded breaking changes in seeded/.")
    json.dump(m, open(os.path.join(V, "MANIFEST.json"), "w"), indent=1)
    print("claimed", [c["property_id"] for c in checks])


main()

"""Regenerate /verif/MANIFEST.json from the table below + which harnesses exist."""
import json, os
V = os.path.dirname(os.path.dirname(os.path.abspath(__file__)))

TB = ("Trusted: Coq 8.16.1 kernel (vm_compute, no native_compute, no axioms: every Print Assumptions is closed); "
      "the hand-written Gallina model of the named source lines; the Python correspondence harness that runs model (inside Coq) "
      "and implementation on the same cases; translators for generated data. Modelled not verified: CPython, NumPy/JAX/TF, typeguard, beartype. ")

P = {
 "C01": dict(text='Theorems (all ranks, sizes, histories) about the executable model of _check_dims/_check_shape/__instancecheck_str__: an accepted check narrows the set of consistent axis assignments by exactly the documented meaning of the dim string, a rejected one means no consistent assignment satisfies it, AnnotationError iff an evaluated symbolic axis mentions an unbound name; slices partition the shape; broadcasting is the lub. Tie, two ways: (1) _check_dims and _check_shape are REGENERATED FROM THE SOURCE on every run as terms of a deep embedding (model/PyL.v, translator/tr_pyl.py) and proved to compute the model for all inputs (C01_check_dims_source_refines_model, C01_check_shape_source_refines_model; the parser is proved to yield at most one variadic at index_variadic); (2) differential correspondence inside Coq on sessions of checks incl. the exact memo, on the two functions called directly vs the interpreted source terms, and with re-used annotation objects / parked threads; memo-only disagreements are extended into a wrong verdict.',
             tech='Coq proof over executable Gallina model + source-to-deep-embedding translator with refinement proof + differential correspondence (vm_compute) with failing-input search', ref="11/C01"),
 "C02": dict(text="Theorems: a non-raising walk from a fresh context accepts iff ONE assignment satisfies every use; verdict invariant under permutation of the uses; the wrapper's second pass re-walks accepted uses without changing anything, so call_new succeeds iff a consistent assignment exists. Tie: generated decorated functions under all admissible parameter permutations, positional/keyword, typeguard and beartype, both spellings, dataclass, half of them after unrelated failing/raising PyTree checks. The typecheckers themselves are third-party: that clause is validated, not proved.",
             tech='Coq proof (gamma invariant, permutation invariance, two-pass lemma) + differential/metamorphic correspondence on decorated calls', ref="11/C02"),
 "C03": dict(text='Category tables regenerated from the source by a fail-closed translator; theorems: for every string, table membership equals the documented hierarchy; inclusions/disjointness; verdict is a function of the extracted dtype name; user categories = string equality or anchored-prefix regex match (Brzozowski derivatives). Tie: complete enumeration of the dtypes the installed libraries can produce x 34 categories x NumPy/JAX(tracers, keys)/TensorFlow/duck backends with an oracle independent of jaxtyping.',
             tech='Coq proof by computation over regenerated tables + exhaustive enumeration on real libraries', ref="11/C03"),
 "C04": dict(text='Theorems: any non-accepting array check (mismatch at any axis, any exception class) returns the context stack unchanged; accepting checks are idempotent; a non-accepting PyTree check restores axes and structure names wherever it fails. The rollback STRUCTURE (except BaseException + restore of four copies, restore on mismatch) is read from the source AST by a translator and instantiates a parametrised check (model/SourceShape.v): with the structure it restores, without it a refutation witness is proved. Tie: engineered partial-progress cases + model-independent deep-copy oracle, half of them after a fault prelude.',
             tech='Coq proof over the check model + source-shape translator (gen/Brackets.v) + oracle on the implementation', ref="11/C04"),
 "C05": dict(text='Theorem by nested induction over programs of calls (3 styles), context blocks, try, manual checks and exits (return / Exception / BaseException / generator creation / non-binding / failing parameter check): every block leaves the whole stack as it found it, top level is stateless, a generator call keeps no context. The push/pop bracket structure (push directly followed by try/finally pop without suspension, unconditional pop) is read from the source AST. Tie: catalogue + random programs executed with real decorated functions; whole traces compared with the model.',
             tech='Coq proof by induction over programs + source-shape translator + generated-program correspondence', ref="11/C05"),
 "C06": dict(text="Theorem: for any number of threads and EVERY schedule of atomic accessor steps, each thread computes what it computes alone, given that the three storage cells are thread-local (kinds regenerated from _storage.py; shared cells are refuted by three proved schedules). Tie: deterministic scheduler on the real code (sys.settrace, park at every line of four jaxtyping files), systematic single-preemption + PRNG schedules, annotation objects shared between threads, threads started from copied contextvars contexts. threading.local itself is CPython's.",
             tech='Coq non-interference proof over all interleavings + generated storage kinds + controlled-schedule replay', ref="11/C06"),
 "C07": dict(text="Theorems: _gensym is fresh for any set of taken names (pigeonhole) and terminates; all generated names are pairwise distinct and distinct from parameters and function name; parameter-list round trip for every well-formed signature; the body runs once iff the call binds and is well-typed. Tie: generated signatures (5 parameter kinds, defaults, names colliding with generated names, the function's name and every identifier used inside _decorator.py, also as **kwargs keys) x def/lambda/async/generator x descriptor kinds x both checkers against the undecorated twin; synthesised def text compared with the model. Object identity and functools.wraps are CPython's.",
             tech='Coq proof (gensym, signature pieces, event trace) + differential testing against the undecorated callable', ref="11/C07"),
 "C08": dict(text='Theorems over all rose trees: a check touches the top context only; a rejected tree restores; for leaf types without arrays PyTree[L] accepts iff all leaves (topmost matching subtrees, else non-containers) match, PyTree[PyTree[L]] = PyTree[L], PyTree[Any] accepts everything. Tie: random trees x 17 leaf types x prior bindings against real JAX flatten, verdict and all bindings, half of the workers after a fault prelude.',
             tech='Coq proof by nested induction over trees + differential correspondence', ref="11/C08"),
 "C09": dict(text="Theorems over all trees: treedef equality is identity; composition associative, the code's fold = nested compose; composite / prefix / suffix checks exact (greedy cut sound and complete); unbound name raises iff some name unseen; validate_structure <=> documented grammar. Tie: triples of random trees x 13 forms (int leaves and array leaves incl. unions whose first alternative rolls the context back) vs an independent reference and the model; structure strings.",
             tech='Coq proof over tree algebra + differential correspondence with jax.tree_util', ref="11/C09"),
 "C10": dict(text='Theorem: strip(xform t) = t for every AST; decorator template (from the source) closed for every hash; import position. Tie: translation validation of the real transformer per program (fresh and re-used transformer instances) on the stdlib / site-packages and generated modules: independent strip + ast.dump with attributes, compile(), docstring, __future__ flags; model AST equality evaluated in Coq on small files and generated modules.',
             tech='Coq proof over a generic AST model + per-file translation validation', ref="11/C10"),
 "C11": dict(text='Theorems: should_instrument <=> dotted-component prefix, for the rule as REGENERATED FROM THE SOURCE (deep embedding model/PyL.v, translator/tr_pyl_hook.py, C11_should_instrument_source_refines_model); first import takes the first live hook; loaded modules never change; uninstall removes exactly its hook (all histories); the pytest option = install_import_hook(stripped comma items but the last, last item) incl. the already-imported error; the IPython magic keeps at most one jaxtyping transformer and every cell gets the checker of the latest magic. Tie: histories in fresh interpreters over a generated forest with spy typecheckers; real pytest runs with --jaxtyping-packages; real IPython shells; pairs of runs with bytecode caching on.',
             tech='Coq proof over string/meta_path/front-end models + history correspondence in subprocesses', ref="11/C11"),
 "C12": dict(text='Theorems: after any check from a clean store - accept, reject or raise of any class anywhere - flatten mode is off and no leaf position is set; array verdict is a function of (value, annotation, top frame, flags). The try/finally brackets around both transient flags are read from the source AST. Tie: exhaustive single-fault catalogue (26 ops x fault points x Exception/BaseException x checker x in/out of context) + random histories, then 10 probes.',
             tech='Coq proof over fault model + source-shape translator + exhaustive fault enumeration on the implementation', ref="11/C12"),
 "C13": dict(text='Theorems: TypeCheckError iff a walk rejects; stage and blamed parameter = first failing use given those before it; reported bindings = the live memo, which contains nothing of the failed check (rollback structure read from the source); AnnotationError passes through. Tie: ill-typed generated calls incl. unions, {arg} axes and PyTree parameters with several array leaves; message parsed; bindings compared with the live memo (spy), with a fresh context after exactly the passed checks, and with the model.',
             tech='Coq proof over wrapper error path + source-shape translator + message oracles on the implementation', ref="11/C13"),
 "C14": dict(text="Theorems for all strings: whitespace insignificant, modifier order free (any length), name= ignored, '...' = '*_', repeated/illegal forms rejected and only those. Parser termination by structural recursion (kernel-checked). Tie: exhaustive tokens (<=4 modifiers x 9 bases x doc= placement) and sampled sequences compared with the real parser; model-independent order/whitespace oracles.",
             tech="Coq proof over executable parser model + exhaustive token enumeration against the implementation", ref="11/C14"),
 "C15": dict(text="Theorems: nesting law via parse concatenation and dtype intersection, scalar ladder over generated tables. Tie: both sides of each law built with the real library and compared on probes.",
             tech="Coq proof + metamorphic comparison on the implementation", ref="11/C15"),
 "C16": dict(text="Theorems: tree-path labels are injective and disjoint from plain names, hence per-position independence; misuse raises. Tie: trees with per-leaf sizes.",
             tech="Coq proof over label model + differential correspondence", ref="11/C16"),
 "C17": dict(text="Theorem: the check model observes only isinstance/shape/dtype, so equal (type, shape, dtype) give equal outcomes. Tie: logging duck arrays and jit/vmap/grad/eval_shape vs eager. JAX tracing is JAX's (partial).",
             tech="Coq non-interference proof over the check model + access-log and tracing correspondence", ref="11/C17"),
 "C18": dict(text="Theorem: cache invariant (tag determines instrumentation) over all histories for get_code-scoped patching; refutation witness for exec_module-scoped patching. Tie: multi-run histories in subprocesses over one cache directory.",
             tech="Coq invariant proof over cache model + history replay on CPython", ref="11/C18"),
 "C19": dict(text="Theorems: switch parser accepts exactly the generated spellings; disabled wrapper trace is [Body]. Tie: exhaustive switch table + generated callables under toggle schedules vs the undecorated callable.",
             tech="Coq proof over generated config table + exhaustive switch enumeration", ref="11/C19"),
 "C20": dict(text="Theorems: flat annotations round-trip through the reducer; nested/cloudpickle cases refuted or proved after repair. Tie: verdict vectors of original-before/after and reloaded, same process and subprocess.",
             tech="Coq proof over reducer model + metamorphic verdict-vector comparison", ref="11/C20"),
}


def main():
    checks, na = [], []
    for pid in sorted(P):
        h = os.path.join(V, "harness", pid.lower() + ".py")
        if os.path.exists(h):
            p = P[pid]
            checks.append(dict(property_id=pid, quick_cmd="./check %s --tier quick" % pid,
                               thorough_cmd="./check %s --tier thorough" % pid,
                               evidence_file="/verif/evidence/%s.json" % pid,
                               replay_cmd_template="./check %s --replay {path}" % pid, engine="coq+correspondence",
                               level_claimed=dict(category="proof", text=p["text"], design_ref="DESIGN.md section " + p["ref"].split("/")[0] + " (row " + p["ref"].split("/")[1] + ") and section 5." + str(int(p["ref"].split("/")[1][1:]))),
                               level_note=TB + p.get("note", ""), technique=p["tech"]))
        else:
            na.append(dict(property_id=pid, reason="check not built yet in this session (planned, see DESIGN.md section 5/%s); not claimed until its harness exists" % pid))
    m = dict(version=1, setup_cmd="./setup.sh",
             hooks=dict(guard="JAXTYPING_VERIF", enable="no guarded source hooks: checks observe through public API and from-outside spies; JAXTYPING_VERIF=1 is exported to the implementation workers but nothing in /repo reads it",
                        baseline_off_cmd="cd /repo && /venv/bin/python -m pytest -ra -q -p no:cacheprovider --timeout=900 --continue-on-collection-errors",
                        source_commits=[], add_only=True),
             engines=[dict(name="coq+correspondence", path="/verif/coq + /verif/harness", serves_properties=[c["property_id"] for c in checks],
                           kind_free_text="Coq 8.16.1 development (model/, proofs/, props/, gen/ regenerated from /repo) + Python differential harness evaluating the model inside Coq by vm_compute")],
             checks=checks, not_applicable=na,
             notes="Entry point ./check Cnn; design in DESIGN.md; genuine defects in known_findings.json; seeded breaking changes in seeded/.")
    json.dump(m, open(os.path.join(V, "MANIFEST.json"), "w"), indent=1)
    print("claimed", [c["property_id"] for c in checks])


main()

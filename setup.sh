#!/bin/bash
# MANIFEST.setup_cmd: build the Coq development from files on disk (offline).
set -e
cd "$(dirname "$0")"
/venv/bin/python -B translator/run_all.py /repo coq/gen
/venv/bin/python -B - <<'PY'
import sys; sys.path.insert(0, "lib")
import vf
vf.coq_project()
ok, log = vf.coq_make()
print(log[-3000:])
sys.exit(0 if ok else 1)
PY
